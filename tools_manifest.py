#!/venv/bin/python
"""Regenerates MANIFEST.json from the table below (keeps it valid at all times)."""
import json, os
ROOT = os.path.dirname(os.path.abspath(__file__))
GUARD = "AWS_DURABLE_EXECUTION_SDK_PYTHON_VERIF"

CHECKS = {
 "C19": dict(
   text="Bounded exhaustive exploration of the real OrderedLock/OrderedCounter under a controlled scheduler: every interleaving of 2-3 threads (4 in thorough) within a stated deviation (preemption) budget, at sync-op granularity and at line granularity of threading.py, with an exception injected in any one critical section.",
   note="Trusted: the virtual Lock/Event primitives (conformance self-test in setup_cmd); preemption only at visible operations and SDK line boundaries; deviation budgets per harness config are listed in the evidence.",
   technique="stateless model checking of the implementation (iterative context bounding, controlled scheduler, line-level preemption)",
   design="6/C19"),
}
CHECKS["C05"] = dict(
   text="Bounded exhaustive exploration of the real ExecutionState checkpoint pipeline (create_checkpoint producers against checkpoint_batches_forever) under a controlled scheduler with virtual time: 1-3 producers, update sequences over sync/async x small/large/oversize/empty, batcher configs, every schedule within 2 (quick) / 3 (thorough) deviations including 'batch-window timeout fires first'; oracle on the recorded API calls: exactly-once, order is a linear extension of hand-over order, token chain, limits, every synchronous caller released.",
   note="Trusted: virtual Queue/Event/Lock (conformance self-test), the recording service client; update size measured as the SDK measures it. Deviation budgets per config are in the evidence.",
   technique="stateless model checking of the implementation (deviation-bounded DFS over thread and timer choices, virtual time)",
   design="6/C05")
SIM_NOTE = ("Trusted: the backend reference model (vcheck/sim/backend.py, wire forms built independently of the SDK codecs), "
            "the virtual primitives (self-test), operation positions recovered from harness-assigned operation names. "
            "Bounds (program sizes, crash/pagination/scheduling deviation budgets) are listed in the evidence; the shapes, value "
            "alphabets, fault menus, duration grids, stall and late-timer options added after the seeded-change waves "
            "(DESIGN.md 12.5) are part of the explored space and the evidence file's bounds text is the authoritative list.")
SIM_TECH = "stateless model checking of the implementation: exhaustive enumeration of crash points, pagination modes, delivery orders and scheduling deviations over a bounded program corpus, against a backend reference model"
CHECKS["C01"] = dict(
   text="Every execution of a bounded corpus of workflow programs (all <=2-unit sequences over 14 operation kinds, <=3 over a reduced set, nested shapes) is explored through the production entry point against a stateful backend model, with every single crash point, every pagination mode of each re-invocation, three scheduler policies and +1 scheduling deviation on concurrent shapes; oracle: no user function is entered while the backend holds a terminal record for its operation (except ReplayChildren contexts), and calls at completed positions deliver the recorded outcome.",
   note=SIM_NOTE, technique=SIM_TECH, design="6/C01", engine="vsched+durable-sim")
CHECKS["C02"] = dict(
   text="Same exploration space as C01; differential oracle with no hand-written expectations: every delivery at a program position equals (typed rendering, exception class+message) the first completed delivery there, and the final outcome of every interrupted run equals that of the uninterrupted run of the same program.",
   note=SIM_NOTE, technique=SIM_TECH, design="6/C02", engine="vsched+durable-sim")
CHECKS["C11"] = dict(
   text="Lifecycle monitor over the concatenated update stream of all invocations of every explored execution (C01 space): at most one START per attempt, START before RETRY/SUCCEED/FAIL, nothing after a terminal record or for an operation already held terminal, parent context START before a child's first update, EXECUTION record at most once and last.",
   note=SIM_NOTE, technique=SIM_TECH, design="6/C11", engine="vsched+durable-sim")
CHECKS["C03"] = dict(
   text="Write-ahead oracle evaluated at the instant of every delivery against the backend's own table: a durable call returns (or raises its final error) only if the backend row is already terminal; PENDING only if every parked position has its wake-up record; empty-payload SUCCEEDED/FAILED only after the EXECUTION record. Explored: 22 one/two-unit programs over all operation kinds under every schedule with <=2 deviations (thread choices, timer-first) and with every API call black-holed or failed.",
   note=SIM_NOTE, technique=SIM_TECH, design="6/C03", engine="vsched+durable-sim")
CHECKS["C04"] = dict(
   text="One at-most-once step in four placements x 5 retry strategies x 4 behaviours, every crash point (pairs for the stand-alone placement; pairs everywhere in thorough), three policies; oracle from the world's entry log: at most one function entry per (operation, attempt) and the backend row is STARTED at every entry.",
   note=SIM_NOTE, technique=SIM_TECH, design="6/C04", engine="vsched+durable-sim")
CHECKS["C07"] = dict(
   text="Programs mixing waits, retries, callbacks, invokes, wait_for_condition at top level and in 2-3 branch parallel/map shapes (branch functions of 0/2/5 virtual seconds, nesting 2, max_concurrency, zero items), all delivery orders incl. a spurious re-invocation, every crash point, three policies, +1 scheduling/timer deviation; oracle: at PENDING every parked position is registered, no non-orphan user function is still running, something is armed; every execution terminates within the invocation bound and every invocation ends before the virtual horizon and step cap (deadlock, blocking and spinning all detected).",
   note=SIM_NOTE, technique=SIM_TECH, design="6/C07", engine="vsched+durable-sim")
CHECKS["C10"] = dict(
   text="Early-completion configurations x 10 survivor positions for parallel at top level, inside a child context and nested, all schedules with <=1 (quick) / <=2 (thorough) deviations and three policies; oracle on the backend's update stream and the world's entry log: no descendant update after the ancestor's completion record, no descendant user function entered after it was applied.",
   note=SIM_NOTE, technique=SIM_TECH, design="6/C10", engine="vsched+durable-sim")
CHECKS["C06"] = dict(
   text="(a) Component harness: real ExecutionState producers against the real consumer with API call k failing (three error classes), producers keep issuing calls, all schedules within 2 (quick) / 3 (thorough) deviations plus line-level preemption in state.py: no call after the failure, every blocked and later synchronous caller raises BackgroundThreadError carrying the failure, nobody blocked at the horizon. (b) Whole handler: 14 program shapes (incl. parallel/map with running, parked and timer-resubmitted branches) with every checkpoint call failing with each of four error classes under three policies (+1 deviation): the invocation ends, raises or returns FAILED per classification, never SUCCEEDED/PENDING, makes no further API call and delivers no unrecorded outcome.",
   note=SIM_NOTE + " Classification table taken from the property text and the SDK's tested behaviour: 4xx other than 429/invalid-token => raise; 5xx, 429, invalid token => FAILED.",
   technique=SIM_TECH + "; plus component-level stateless model checking of the checkpoint pipeline", design="6/C06", engine="vsched+durable-sim")
CHECKS["C15"] = dict(
   text="Bounded exhaustive enumeration of the default serializer's type grammar: every list/tuple/dict/BatchResult of size <=2 over a 47-value adversarial leaf alphabet at depth 1, depth 2 over reduced and single-wrapped full alphabets (depth 3 in thorough), every envelope look-alike for 17 tags, and a rejection alphabet; each value goes through serialize/deserialize and ExtendedTypeSerDes and is compared with typed, NaN- and signed-zero-aware deep equality: equal or rejected, never altered.",
   note="Trusted: the typed equality (vcheck/props/c15.py same()). Subclass instances and bytearray/memoryview are outside the stated domain. ~6e5 values quick.",
   technique="bounded exhaustive input enumeration (small-scope) against an identity reference", design="6/C15", engine="enum")
CHECKS["C20"] = dict(
   text="Bounded exhaustive enumeration of every wire model class (ErrorObject, all Details and Options, OperationUpdate, Operation, invocation input/output) over {absent, empty, value} per optional field and every enum member, pairwise across details classes, through both dict and JSON codecs, compared field-wise; every create_* factory's wire form is checked for the options passed; to/from_unix_millis over dense millisecond windows with sub-millisecond probes.",
   note="Trusted: the flattening comparison (drops None/''/empty sub-objects, millisecond resolution) which encodes the wire form's documented omissions. ~1.1e6 objects/timestamps quick.",
   technique="bounded exhaustive input enumeration (small-scope) against an identity reference", design="6/C20", engine="enum")
CHECKS["C08"] = dict(
   text="13 program shapes (nesting <=3, sibling maps, child-in-branch-in-map, callbacks in branches, max_concurrency, early completion) under every crash point, every schedule within 1 (quick) / 2 (thorough) deviations and four scheduler policies; the relation structural position -> (Id, ParentId) read from the updates reaching the backend model must be a function and injective within each execution, across all executions and across programs, and every ParentId must name the enclosing context.",
   note=SIM_NOTE + " Ids of SDK-named contexts are learned from their children's parent links, not from naming conventions.",
   technique=SIM_TECH, design="6/C08", engine="vsched+durable-sim")
CHECKS["C09"] = dict(
   text="parallel with 0..3 branches (every succeed/fail assignment x completion orders by distinct virtual finish times, blocked and parked branches) and maps of 0..3 items x 14 completion configurations x max_concurrency {None,1,2}, followed by a replaying invocation; oracle: an independent reference model of the documented completion policy evaluated on the world's ground truth (never returns before decided, never waits after, items in input order with the branch's actual result/error or STARTED, reason consistent with statuses and policy, simultaneous bodies <= limit, replay delivers an equal BatchResult).",
   note=SIM_NOTE + " Where the documentation is contradictory (completely empty CompletionConfig) both fail-fast and tolerant behaviour are accepted.",
   technique=SIM_TECH + "; differential against a reference model of the completion policy", design="6/C09", engine="vsched+durable-sim")
CHECKS["C12"] = dict(
   text="(i) One step (top level and inside a parallel branch) x 8 retry strategies x 6 failure patterns x every crash point (pairs in thorough): strategy consulted with 1 + accepted retries, RETRY delay >= 1 and equal to the clamped decision, retries <= max_attempts-1, function runs exactly min(failures+1, max_attempts) times absent crashes, re-entry only after an accepted RETRY (or an explained crash), a decline is followed by an accepted FAIL, raised, and final. (ii) create_retry_strategy enumerated over 864 configurations x every attempt x 4-8 jitter values, error filters and the five presets against backoff/jitter bounds.",
   note=SIM_NOTE, technique=SIM_TECH + "; plus bounded exhaustive enumeration of the packaged strategy configurations", design="6/C12", engine="vsched+durable-sim")
CHECKS["C13"] = dict(
   text="wait_for_condition over 10 initial states from the serializer's domain x 4 check functions x 6 decision tables (continue 0/1/3, stop, <=4 polls), inside a parallel branch, with a custom SerDes and with a failing check, under every crash point (pairs in thorough): the (state, poll number) sequence seen by the check function and the strategy, recorded RETRY delays, stop => SUCCEED with the last state as result, no poll after a terminal record, suspension only after a recorded continue. create_wait_strategy over a 675-config grid.",
   note=SIM_NOTE, technique=SIM_TECH, design="6/C13", engine="vsched+durable-sim")
CHECKS["C14"] = dict(
   text="create_callback (with code between creation and result()), wait_for_callback and invoke in three placements x all terminal and non-terminal backend outcomes x delivery instant (at the START call, at a later call of the creating invocation, while PENDING, after an unrelated/spurious wake-up) x every crash point: callback id equals the backend-issued one in every invocation, create_callback never raises because of the outcome, result()/invoke suspend while outstanding and then deliver exactly the payload or raise (CallbackError for result()), exactly one invoke START carrying the serialized payload, target and tenant.",
   note=SIM_NOTE, technique=SIM_TECH, design="6/C14", engine="vsched+durable-sim")
CHECKS["C16"] = dict(
   text="Child context results of 256KB-1/256KB/256KB+1/300000 characters (with/without summary generator, nested), parallel and map whose batch result and/or item results exceed the limit (no/custom/default/SDK-default summary generator), each followed by >=2 replaying invocations, every single crash point and three pagination modes; handler results and errors of limit-1/limit/limit+1/6MB+1 with a crash around the EXECUTION record. Oracle: no CONTEXT payload above the limit, oversized results carry the summary and ReplayChildren, replays deliver an equal value with no completed step re-entered and no new record, every branch with a large result still succeeds, oversized handler outcomes are recorded before the empty-payload status.",
   note=SIM_NOTE + " Real payloads are used; no size constant is patched. Between the SDK's threshold (6MB-50) and 6MB either inline or recorded is accepted.",
   technique=SIM_TECH, design="6/C16", engine="vsched+durable-sim")
CHECKS["C17"] = dict(
   text="Sequential programs of <=3 units over 11 unit kinds (<=4 in thorough) with a log call in every gap and inside every step/check/submitter body and a capturing logger installed through set_logger; every history a suspension or single crash can leave, every pagination split of the history. Oracle: in a first invocation every log call is emitted; in a resuming invocation a gap log is emitted iff it does not precede the last unit completed before the invocation began, logs inside newly executed functions are emitted; records carry the ARN, operation id/name/attempt and parent id.",
   note=SIM_NOTE + " Invocations whose history holds only unfinished operations are not judged (the statement leaves them open).",
   technique=SIM_TECH, design="6/C17", engine="vsched+durable-sim")
CHECKS["C18"] = dict(
   text="Handlers returning 9 kinds of values, raising 13 exception classes from four placements, failing serialization/validation, suspending from 8 parking shapes; checkpoint faults of four classes and get-state faults at every call position of 6 (quick) / 12 (thorough) programs with pagination and three policies; 16 malformed payloads. Oracle: the wrapper returns a well-formed dict (SUCCEEDED+JSON text / FAILED+error object or EXECUTION record / bare PENDING) or raises, and raises only for retriable checkpoint errors, invocation-class errors or malformed payloads; user errors => FAILED with the error type, suspension => PENDING; no handler-pool thread is alive afterwards; every invocation ends.",
   note=SIM_NOTE, technique=SIM_TECH, design="6/C18", engine="vsched+durable-sim")
NOT_YET = {}

def main():
    props = [json.loads(l) for l in open(os.path.join(ROOT, "properties.jsonl"))]
    checks = []
    na = []
    for p in props:
        pid = p["id"]
        if pid in CHECKS:
            c = CHECKS[pid]
            checks.append({
                "property_id": pid,
                "quick_cmd": f"./check {pid} --tier quick",
                "thorough_cmd": f"./check {pid} --tier thorough",
                "evidence_file": f"/verif/evidence/{pid}.json",
                "replay_cmd_template": f"./check {pid} --replay {{path}}",
                "engine": c.get("engine", "vsched"),
                "level_claimed": {"category": "model_checking", "text": c["text"], "design_ref": c["design"]},
                "level_note": c["note"],
                "technique": c["technique"],
            })
        else:
            na.append({"property_id": pid, "reason": NOT_YET.get(pid, "check under construction in this session; not claimed until its harness and oracle are committed")})
    m = {
        "version": 1,
        "setup_cmd": "./setup.sh",
        "hooks": {"guard": GUARD, "enable": f"{GUARD}=1 is exported by ./check; no source hook is needed (nondeterminism is captured by identity substitution of module globals after import)",
                  "baseline_off_cmd": "cd /repo && /venv/bin/python -m pytest -q -p no:cacheprovider --timeout=900",
                  "source_commits": [], "add_only": True},
        "engines": [
            {"name": "vsched", "path": "/verif/vcheck/vsched", "serves_properties": sorted(CHECKS), "kind_free_text": "controlled scheduler + virtual time for the real SDK threads; deviation-bounded exhaustive DFS"},
            {"name": "enum", "path": "/verif/vcheck/props", "serves_properties": ["C15", "C20"], "kind_free_text": "bounded-exhaustive value enumeration for the sequential codecs"},
            {"name": "durable-sim", "path": "/verif/vcheck/sim", "serves_properties": sorted(k for k, v in CHECKS.items() if "sim" in v.get("engine", "")), "kind_free_text": "backend reference model behind the boto3 seam + multi-invocation driver with crash/fault/pagination/delivery choices + workflow DSL"},
        ],
        "checks": checks,
        "not_applicable": na,
        "notes": "All checks import the SDK from /repo/src of the current working tree (editable install); no build step.",
    }
    json.dump(m, open(os.path.join(ROOT, "MANIFEST.json"), "w"), indent=1)
    print("checks:", [c["property_id"] for c in checks], "not claimed:", len(na))

if __name__ == "__main__":
    main()
