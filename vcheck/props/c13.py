"""C13 - wait_for_condition threads its state through polls and stops when told to.
Space: initial states from the serializer's domain x check functions x decision tables
(continue with delays 0/1/3, stop) x every crash point, top level and inside a branch."""
from __future__ import annotations

import itertools
import math

from vcheck import common
from vcheck.props import simcheck
from vcheck.sim.dsl import dec, render
from vcheck.sim.monitors import V
from vcheck.sim.programs import T
from vcheck.vsched import prims

MOD = "vcheck.props.c13"

INITS = {
    "int0": (0, "inc"), "tuple": (T(), "append"), "list": ([], "append"), "dict": ({"n": 0, "k": [1, T(2)]}, "dictinc"),
    "decimal": ({"$t": "dec", "v": "1.10"}, "id"), "none": (None, "id"), "empty-str": ("", "id"),
    "nested": (T(1, [2, {"a": None}]), "append"),
    "sentinel-none": ({"phase": "submitted"}, "nonecycle"),
    "dict-inplace": ({"n": 0, "k": [1]}, "dictinc-inplace"), "list-inplace": ([], "append-inplace"), "bytes": ({"$t": "bytes", "v": "00ff"}, "id"), "bool": (True, "id"),
}
DECIDES = {
    "stop": ["stop"], "c1-stop": [{"cont": 1}, "stop"], "c0-stop": [{"cont": 0}, "stop"],
    "c3-c1-stop": [{"cont": 3}, {"cont": 1}, "stop"], "c1-c0-c3-stop": [{"cont": 1}, {"cont": 0}, {"cont": 3}, "stop"],
    "c1-c1": [{"cont": 1}, {"cont": 1}],  # table ends => stop on poll 3
    "k0-k2-stop": [{"cont": 0, "ctor": True}, {"cont": 2, "ctor": True}, "stop"],   # decisions built with the constructor
}


def programs(tier):
    quick = tier == "quick"
    out = []
    for iname, (init, fn) in INITS.items():
        for dname, decide in DECIDES.items():
            if quick and iname not in ("int0", "tuple", "dict", "dict-inplace", "list-inplace", "sentinel-none") and dname not in ("c1-stop", "c3-c1-stop", "k0-k2-stop"):
                continue
            op = {"k": "wfc", "init": init, "check": {"fn": fn}, "decide": decide}
            meta = {"init": iname, "decide": dname, "path": [1], "npolls": len([x for x in decide if x != "stop"]) + 1,
                    "fn": fn}
            out.append({"name": f"wfc[{iname};{dname}]", "meta": meta, "seq": [op, {"k": "step", "fn": {"ret": "after"}}]})
    for iname, dname in (("int0", "c3-c1-stop"), ("tuple", "c1-c0-c3-stop"), ("dict", "c0-stop")):
        init, fn = INITS[iname]
        op = {"k": "wfc", "init": init, "check": {"fn": fn}, "decide": DECIDES[dname]}
        meta = {"init": iname, "decide": dname, "path": [1, "b0", 1], "npolls": len([x for x in DECIDES[dname] if x != "stop"]) + 1, "fn": fn}
        out.append({"name": f"par[wfc[{iname};{dname}],slow]", "meta": meta, "seq": [
            {"k": "par", "cfg": {"cc": "all_completed"}, "branches": [[op], [{"k": "step", "fn": {"sleep": 6, "then": {"ret": "s"}}}]]}]})
    # custom SerDes
    op = {"k": "wfc", "init": 0, "check": {"fn": "inc"}, "decide": DECIDES["c1-c0-c3-stop"], "serdes": "prefix"}
    out.append({"name": "wfc[int0;c1-c0-c3-stop;custom-serdes]", "meta": {"init": "int0", "decide": "c1-c0-c3-stop", "path": [1],
                                                                        "npolls": 4, "fn": "inc"},
                "seq": [op, {"k": "step", "fn": {"ret": "after"}}]})
    # failing check
    op = {"k": "try", "catch": ["Boom", "CallableRuntimeError"],
          "body": {"k": "wfc", "init": 0, "check": {"fn": "inc", "raise_at": 2}, "decide": DECIDES["c1-c0-c3-stop"]}}
    out.append({"name": "wfc[int0;fails-on-poll-2]", "meta": {"init": "int0", "decide": "c1-c0-c3-stop", "path": [1], "npolls": 2,
                                                             "fn": "inc", "fails_at": 2},
                "seq": [op, {"k": "step", "fn": {"ret": "after"}}]})
    # the recorded final state can no longer be decoded when the completed condition is replayed: the call may raise, but it
    # must not deliver a value that no poll returned
    op = {"k": "wfc", "init": 0, "check": {"fn": "inc"}, "decide": DECIDES["c1-stop"], "serdes": {"prefix_broken_from": 2}}
    out.append({"name": "wfc[int0;c1-stop;decoder-breaks-after-completion]",
                "meta": {"init": "int0", "decide": "c1-stop", "path": [1], "npolls": 2, "fn": "inc"},
                "seq": [{"k": "try", "catch": ["ExecutionError", "SerDesError", "CallableRuntimeError"], "body": op},
                        {"k": "wait", "s": 1}, {"k": "wait", "s": 1}, {"k": "step", "fn": {"ret": "after"}}]})
    # a poll whose returned state cannot be serialized: the failure is recorded and never polled again
    op = {"k": "try", "catch": ["Boom", "CallableRuntimeError", "ExecutionError", "SerDesError"],
          "body": {"k": "wfc", "init": 0, "check": {"fn": "inc", "unser_at": 2}, "decide": DECIDES["c1-c0-c3-stop"]}}
    out.append({"name": "wfc[int0;unserializable-state-on-poll-2]",
                "meta": {"init": "int0", "decide": "c1-c0-c3-stop", "path": [1], "npolls": 2, "fn": "inc", "fails_at": 2},
                "seq": [op, {"k": "wait", "s": 1}, {"k": "wait", "s": 1}, {"k": "step", "fn": {"ret": "after"}}]})
    return out


def judge(d, _=None):
    out = []
    m = d.program["meta"]
    path = tuple(m["path"])
    be, w = d.backend, d.world
    init_r = render(dec(INITS[m["init"]][0]))
    ents = [e for e in w.entries if e["path"] == path and e["kind"] == "check"]
    log = [r for r in be.log if r["path"] == path and not r.get("external")]
    decide = DECIDES[m["decide"]]
    crashes = [i["crash"]["tick"] for i in d.invocations if i.get("crash")]
    # which returned state was recorded by the RETRY that produced attempt a+1?
    recorded = {}   # attempt number a (0-based Attempt after retry) -> state rendering recorded
    for r in log:
        if r["u"]["Action"] == "RETRY":
            a_after = (r.get("before_attempt") or 0) + 1
            prev = [e for e in ents if e.get("exit") == "ret" and e["exit_tick"] < r["tick"]]
            if prev:
                recorded[a_after] = prev[-1]["returned"]
            dly = (r["u"].get("StepOptions") or {}).get("NextAttemptDelaySeconds")
            if dly is None or dly < 1:
                V(out, "C13", "continue-recorded-with-delay-below-one", f"{d.program['name']}: RETRY delay {dly}")
            idx = a_after - 1
            if idx < len(decide) and decide[idx] != "stop" and dly != max(1, decide[idx]["cont"]):
                V(out, "C13", "recorded-delay-differs-from-decision",
                  f"{d.program['name']}: decision for poll {a_after} was continue({decide[idx]['cont']}) but RETRY recorded {dly}")
    for e in ents:
        a = e["attempt"]
        want = init_r if a == 0 else recorded.get(a)
        if want is None:
            V(out, "C13", "poll-without-recorded-predecessor", f"{d.program['name']}: poll {a + 1} entered but no RETRY recorded the state of poll {a}")
        elif e["state"] != want:
            V(out, "C13", "check-received-wrong-state",
              f"{d.program['name']}: poll {a + 1} (invocation {e['inv']}) received {e['state']}, expected {want}",
              poll="first" if a == 0 else "later", init=m["init"] if m["init"] in ("none", "empty-str") else "other")
    # without crashes every poll number runs once: a poll that returned or raised has its outcome recorded (continue,
    # stop or failure), so no later invocation runs the same poll again
    if not any(i.get("crash") or i.get("faults") for i in d.invocations):
        seen_polls = {}
        for e in ents:
            if e["attempt"] in seen_polls:
                V(out, "C13", "poll-number-repeated",
                  f"{d.program['name']}: poll {e['attempt'] + 1} ran in invocation {seen_polls[e['attempt']]} and again in invocation "
                  f"{e['inv']} (its first outcome: {seen_polls.get(('x', e['attempt']))})", how=str(seen_polls.get(("x", e["attempt"]))))
            else:
                seen_polls[e["attempt"]] = e["inv"]
                seen_polls[("x", e["attempt"])] = e.get("exit")
    # poll numbers seen by the strategy
    for c in w.wfc_calls:
        if c["path"] != path:
            continue
        prev = [e for e in ents if e["tick"] < c["tick"]]
        if prev and c["attempt"] != prev[-1]["attempt"] + 1:
            V(out, "C13", "strategy-poll-number-wrong",
              f"{d.program['name']}: strategy saw poll number {c['attempt']}, the check ran as poll {prev[-1]['attempt'] + 1}")
        if prev and prev[-1].get("returned") is not None and c["state"] != prev[-1]["returned"]:
            V(out, "C13", "strategy-state-differs-from-check-result",
              f"{d.program['name']}: strategy saw {c['state']}, check returned {prev[-1]['returned']}")
    # end of polling
    succ = [r for r in log if r["u"]["Action"] == "SUCCEED"]
    fails = [r for r in log if r["u"]["Action"] == "FAIL"]
    term = (succ + fails)
    if term:
        t_end = term[0]["tick"]
        late = [e for e in ents if e["tick"] > t_end]
        if late:
            V(out, "C13", "polled-after-completion", f"{d.program['name']}: check entered in invocation {late[0]['inv']} after the terminal record")
    if d.final and d.final.get("status") == "SUCCEEDED" and not m.get("fails_at"):
        n_polls = max((e["attempt"] for e in ents), default=-1) + 1
        if n_polls != m["npolls"]:
            V(out, "C13", "polling-did-not-stop-when-told",
              f"{d.program['name']}: {n_polls} polls, the strategy stops on poll {m['npolls']}")
        last = [e for e in ents if e.get("exit") == "ret"]
        res = [o for o in w.obs if o["path"] == path and o["kind"] == "ret"]
        if last and res and any(o["r"] != last[-1]["returned"] for o in res):
            V(out, "C13", "result-is-not-last-state",
              f"{d.program['name']}: delivered {[o['r'] for o in res]}, last check returned {last[-1]['returned']}")
        if not succ:
            V(out, "C13", "stop-not-recorded", f"{d.program['name']}: no SUCCEED record")
    # a continue decision is recorded before the suspension
    for inv in d.invocations:
        if inv["outcome"] == "returned" and isinstance(inv.get("out"), dict) and inv["out"].get("Status") == "PENDING":
            for pk in inv.get("parked", []):
                if tuple(pk["path"]) == path and pk["status"] not in ("PENDING", "READY"):
                    V(out, "C13", "suspended-without-recorded-continue",
                      f"{d.program['name']}: invocation {inv['n']} suspended on the condition while the row was {pk['status']}")
    return out


def exec_one(unit, prefix, expect=None):
    return simcheck.exec_with([judge], unit, prefix, expect)


def grid_chunk(arg):
    from aws_durable_execution_sdk_python.config import Duration, JitterStrategy
    from aws_durable_execution_sdk_python.waits import WaitStrategyConfig, create_wait_strategy
    k, nch, rvals = arg
    viol = {}
    n = 0
    notes = set()

    def bad(clause, msg):
        sig = f"C13/packaged/{clause}"
        viol.setdefault(sig, {"sig": sig, "msg": msg, "replay": {"grid": True, "sig": sig}})

    combos = list(itertools.product(range(1, 6), (1, 2, 5), (1, 10, 300), (1, 1.5, 2), ("NONE", "HALF", "FULL")))
    for idx, (maxa, init, mx, rate, jit) in enumerate(combos):
        if idx % nch != k:
            continue
        strat = create_wait_strategy(WaitStrategyConfig(should_continue_polling=lambda s: s != "done", max_attempts=maxa,
                                                        initial_delay=Duration(seconds=init), max_delay=Duration(seconds=mx),
                                                        backoff_rate=rate, jitter_strategy=JitterStrategy(jit)))
        for attempt in range(1, maxa + 2):
            for state in ("busy", "done"):
                for r in rvals:
                    prims.RANDOM_OVERRIDE = r
                    dcs = strat(state, attempt)
                    n += 1
                    cont = getattr(dcs, "should_continue", getattr(dcs, "should_wait", None))
                    if not hasattr(dcs, "should_continue"):
                        notes.add("create_wait_strategy returns WaitDecision (should_wait), not WaitForConditionDecision")
                    cfgs = f"max_attempts={maxa} initial={init} max={mx} rate={rate} jitter={jit} attempt={attempt} state={state} r={r}"
                    want = state != "done" and attempt < maxa
                    if bool(cont) != want:
                        bad("continue-decision", f"{cfgs}: continue={cont}, expected {want}")
                        continue
                    if want:
                        dly = dcs.delay_seconds
                        base = min(init * rate ** (attempt - 1), mx)
                        if dly < 1 or dly > max(1, math.ceil(mx)):
                            bad("delay-outside-1-to-max", f"{cfgs}: delay {dly}")
                        if jit == "NONE" and dly != max(1, math.ceil(base)):
                            bad("backoff-not-followed", f"{cfgs}: delay {dly}")
    prims.RANDOM_OVERRIDE = None
    return {"n": n, "viol": list(viol.values()), "notes": sorted(notes)}


def space(tier):
    quick = tier == "quick"
    cap = 30_000 if quick else 600_000
    units = []
    for p in programs(tier):
        if "decoder-breaks" in p["name"]:
            # no crash points here: a crash would move a *poll* into the invocations whose decoder is broken, where the
            # state cannot be "restored by the configured serialization" at all
            units.append(({"program": p, "cfg": {"env_kinds": ["page"], "page_modes": [0, 1, 4]}}, {"page": 1, "total": 1}, cap))
            continue
        units.append(({"program": p, "cfg": {"env_kinds": ["crash"]}},
                      {"crash": 1, "total": 1} if quick else {"crash": 3, "total": 3}, cap))
        if not quick:
            units.append(({"program": p, "cfg": {"env_kinds": ["crash", "page"], "page_modes": [0, 1, 3, 5]}},
                          {"crash": 2, "page": 2, "total": 3}, cap))
        if "par[" in p["name"]:
            for pol in ("low", "high"):
                units.append(({"program": p, "cfg": {"env_kinds": ["crash"], "policy": pol}}, {"crash": 1, "total": 1}, cap))
    if quick:
        for p in programs(tier)[:3]:
            units.append(({"program": p, "cfg": {"env_kinds": ["crash"]}}, {"crash": 2, "total": 2}, cap))
    return units


def run(ctx):
    quick = ctx.tier == "quick"
    cov, viols, internal = common.explore_units(ctx, MOD, space(ctx.tier), label=simcheck.label)
    rvals = [0.0, 0.5, 0.999999]
    res = ctx.pmap(MOD, "grid_chunk", [(k, 8, rvals) for k in range(8)])
    n = sum(r["n"] for r in res)
    notes = sorted({x for r in res for x in r["notes"]})
    for r in res:
        viols.extend(r["viol"])
    cov["states"] += n
    cov["transitions"] += n
    cov["traces_validated_against_impl"] += n
    cov["observations"] = notes
    cov["bounds"] = ("initial states {0, (), [], nested dict, Decimal, None, '', nested tuple, bytes, bool, dict/list mutated in place} x check functions "
                     "{increment, append, dict update, identity, in-place dict update, in-place list append, None for two polls then a record} x 6 decision tables over continue(0/1/3)/stop with <=4 polls "
                     "(quick: full product for 3 states, 2 tables for the rest) x every crash point (pairs in thorough), plus the "
                     "operation inside a parallel branch next to a long-running sibling (in-process resumption), a custom "
                     "SerDes and a check that fails on poll 2; create_wait_strategy over a 675-config grid")
    cov["explanation"] = "executions through the production entry point; (state, poll) sequences read from the world's entry log"
    return {"coverage": cov, "violations": viols, "internal": internal,
            "assumptions": ["backend counts polls by RETRY records and returns the RETRY payload as StepDetails.Result"]}


def replay(rep):
    r = rep["replay"]
    if r.get("grid"):
        out = []
        for k in range(8):
            out += grid_chunk((k, 8, [0.0, 0.5, 0.999999]))["viol"]
        return {"violations": [{"sig": v["sig"], "msg": v["msg"]} for v in out if v["sig"] == r["sig"]]}
    unit = {"program": r["program"], "cfg": r["cfg"]}
    res = exec_one(unit, r["prefix"], expect=r.get("options"))
    return {"violations": [{"sig": v["sig"], "msg": v["msg"]} for v in res.violations], "internal": res.internal,
            "summary": res.info["driver"].summary()}
