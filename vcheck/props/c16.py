"""C16 - oversized results stay out of checkpoints and responses yet are fully recovered.
Space: child / parallel / map results around the 256 KB checkpoint limit (real payloads, no
constant patched) with and without a summary generator, then >=2 replaying invocations and
every crash point after the summary record; handler results/errors around the response limit."""
from __future__ import annotations

import json

from vcheck.props import simcheck
from vcheck.sim.backend import fmt_path
from vcheck.sim.monitors import V, _is_prefix

LIMIT = 256 * 1024
RESP_SDK = 6 * 1024 * 1024 - 50     # the SDK's own threshold
RESP_HARD = 6 * 1024 * 1024         # Lambda's response limit
TAIL = [{"k": "wait", "s": 1}, {"k": "wait", "s": 1}, {"k": "step", "fn": {"ret": "end"}}]


def child_prog(target, summary, nested=False):
    overhead = len(json.dumps(["s1", "s2", ""], separators=(",", ":")))
    body = [{"k": "step", "fn": {"ret": "s1"}}, {"k": "step", "fn": {"ret": "s2"}}]
    op = {"k": "child", "body": body, "big": target - overhead}
    if summary:
        op["summary"] = True
    meta = {"ctx": [[1], target, summary]}
    seq = [op]
    if nested:
        seq = [{"k": "child", "body": [op, {"k": "step", "fn": {"ret": "in-outer"}}]}]
        meta = {"ctx": [[1, 1], target, summary]}
    return {"name": f"child[{target - LIMIT:+d};summary={summary};nested={nested}]", "meta": meta, "seq": seq + TAIL}


def wide_child_prog(summary):
    """100 000 three-byte characters: 300 KB in UTF-8 however the serializer escapes them."""
    body = [{"k": "step", "fn": {"ret": "s1"}}, {"k": "step", "fn": {"ret": "s2"}}]
    op = {"k": "child", "body": body, "big": 100_000, "big_char": "\u4e2d"}
    if summary:
        op["summary"] = True
    return {"name": f"child[100000 CJK chars;summary={summary}]", "meta": {"ctx": [[1], 300_000, summary]}, "seq": [op] + TAIL}


def wide_par_prog(kind):
    body = [{"k": "step", "fn": {"bytes": 50_000, "char": "\u4e2d"}}]
    cfg = {"cc": "all_completed", "summary": "custom"}
    op = {"k": "par", "branches": [body, body], "cfg": cfg} if kind == "par" else {"k": "map", "items": [1, 2], "body": body, "cfg": cfg}
    return {"name": f"{kind}[2x50000 CJK chars;summary=custom]", "meta": {"batch": [[1], 150_000, "custom"]}, "seq": [op] + TAIL}


def par_prog(kind, n_each, summary, parent_big=True, no_config=False):
    """Two branches each returning a string of n_each bytes from a step."""
    body = [{"k": "step", "fn": {"bytes": n_each}}]
    cfg = {"cc": "all_completed"}
    if summary == "custom":
        cfg["summary"] = "custom"
    elif summary == "default":
        cfg["summary"] = "default"
    if kind == "par":
        op = {"k": "par", "branches": [body, body], "cfg": cfg}
    else:
        op = {"k": "map", "items": [1, 2], "body": body, "cfg": cfg}
    meta = {"batch": [[1], n_each, summary]}
    if no_config:
        op.pop("cfg")   # the SDK's default configuration for the operation (all_successful / default summary generator)
        meta["batch"][2] = "sdk-default"
    return {"name": f"{kind}[2x{n_each};summary={meta['batch'][2]}]", "meta": meta, "seq": [op] + TAIL}


def policy_prog(kind, cfgname):
    """Oversized batch results under completion policies that tolerate failures or complete early:
    the replay must rebuild the same BatchResult, completion reason included."""
    big = [{"k": "step", "fn": {"bytes": 150_000}}]
    fail = [{"k": "step", "fn": {"raise": "Boom", "msg": "item-fails"}, "retry": "none"}]
    slow = [{"k": "step", "fn": {"sleep": 3, "then": {"bytes": 10}}}]
    cfgs = {"tol1": ({"tol_n": 1}, [big, fail, big]), "pct50": ({"tol_pct": 50}, [big, fail, big]),
            "min2": ({"min": 2}, [big, big, slow]), "min2tol1": ({"min": 2, "tol_n": 1}, [fail, big, big]),
            "first": ({"cc": "first"}, [[{"k": "step", "fn": {"bytes": 300_000}}], slow]),
            # early completion with branches that never started (max_concurrency below the branch count)
            "min1maxc1": ({"min": 1, "maxc": 1}, [[{"k": "step", "fn": {"bytes": 300_000}}], slow, slow]),
            "tol0maxc1": ({"tol_n": 0, "maxc": 1}, [fail, big, big])}
    cfg, branches = cfgs[cfgname]
    op = {"k": "par", "branches": branches, "cfg": dict(cfg)}
    return {"name": f"par[{cfgname};oversized]", "meta": {"policy": [[1]]}, "seq": [op] + TAIL}


def handler_prog(target, err=False):
    ret = {"raise": "Boom", "pad_to": target} if err else {"pad_to": target}
    return {"name": f"handler[{'error' if err else 'result'}={target - RESP_SDK:+d}]",
            "meta": {"handler": [target, err]}, "seq": [{"k": "step", "fn": {"ret": 1}}], "ret": ret}


def handler_via_step_prog(target, where):
    """The final error is the SDK's own error for a failed step / child context whose message is about `target` characters."""
    failing = {"k": "step", "fn": {"raise": "Boom", "msg_pad": target}, "retry": "none"}
    seq = [failing] if where == "step" else [{"k": "child", "body": [{"k": "step", "fn": {"ret": 1}}, failing]}]
    return {"name": f"handler[error via failed {where}~{target - RESP_SDK:+d}]", "meta": {"handler": [target, True], "approx": True},
            "seq": seq}


def programs(tier):
    out = []
    for target in (LIMIT - 1, LIMIT, LIMIT + 1, 300_000):
        for summary in (False, True):
            out.append(child_prog(target, summary))
    out.append(child_prog(LIMIT + 1, False, nested=True))
    out.append(child_prog(300_000, True, nested=True))
    out.append(wide_child_prog(False))
    out.append(wide_child_prog(True))
    out.append(wide_par_prog("par"))
    out.append(wide_par_prog("map"))
    for kind in ("par", "map"):
        for summary in (None, "custom", "default"):
            out.append(par_prog(kind, 140_000, summary))      # branches fit, the batch result does not
        out.append(par_prog(kind, 100_000, None))             # everything fits
        out.append(par_prog(kind, 300_000, "custom"))         # every branch is oversized too
        out.append(par_prog(kind, 300_000, "default"))
        out.append(par_prog(kind, 300_000, None, no_config=True))
        out.append(par_prog(kind, 140_000, None, no_config=True))
    for cfgname in ("tol1", "pct50", "min2", "min2tol1", "first", "min1maxc1", "tol0maxc1"):
        out.append(policy_prog("par", cfgname))
    for target in (RESP_SDK - 1, RESP_SDK, RESP_SDK + 1, RESP_HARD + 1):
        out.append(handler_prog(target, False))
    for target in (RESP_SDK - 1, RESP_SDK + 1, RESP_HARD + 1):
        out.append(handler_prog(target, True))
    out.append(handler_via_step_prog(RESP_HARD + 2000, "step"))
    out.append(handler_via_step_prog(RESP_HARD + 2000, "child"))
    return out


def judge(d, _=None):
    out = []
    be, w = d.backend, d.world
    meta = d.program["meta"]
    # 1. no CONTEXT SUCCEED payload above the limit; oversized ones carry summary + ReplayChildren
    for r in be.log:
        if r.get("external"):
            continue
        u = r["u"]
        if u["Type"] == "CONTEXT" and u["Action"] == "SUCCEED":
            n = len((u.get("Payload") or "").encode("utf-8", "surrogatepass"))
            if n > LIMIT:
                V(out, "C16", "checkpoint-payload-above-limit",
                  f"{d.program['name']}: CONTEXT SUCCEED for {fmt_path(r['path'])} carries {n} bytes (> {LIMIT})")
    if "ctx" in meta:
        path, target, summary = tuple(meta["ctx"][0]), meta["ctx"][1], meta["ctx"][2]
        succ = [r for r in be.log if r["path"] == path and not r.get("external") and r["u"]["Action"] == "SUCCEED"]
        if succ:
            u = succ[0]["u"]
            rc = bool((u.get("ContextOptions") or {}).get("ReplayChildren"))
            pl = u.get("Payload") or ""
            if target > LIMIT:
                if not rc:
                    V(out, "C16", "oversized-result-without-replay-children", f"{d.program['name']}: result of {target} characters recorded without ReplayChildren")
                want = json.dumps({"summary": True}) if summary else ""
                if pl != want:
                    V(out, "C16", "oversized-result-payload-is-not-the-summary",
                      f"{d.program['name']}: payload {pl[:60]!r}... ({len(pl)} chars), expected summary {want!r}", summary=str(summary))
            else:
                if rc or len(pl) != target:
                    V(out, "C16", "result-within-limit-not-recorded-in-full",
                      f"{d.program['name']}: result of {target} characters recorded as {len(pl)} characters, ReplayChildren={rc}")
        out.extend(_replays(d, path))
    if "batch" in meta:
        path = tuple(meta["batch"][0])
        out.extend(_replays(d, path))
        n_each, summary = meta["batch"][1], meta["batch"][2]
        firsts = [o for o in w.obs if o["path"] == path and o["kind"] == "ret" and o.get("batch")]
        if firsts:
            bad = [it for it in firsts[0]["batch"].get("items", []) if it["status"] != "SUCCEEDED"]
            if bad:
                V(out, "C16", "branch-with-large-result-not-succeeded",
                  f"{d.program['name']}: every branch's step succeeds, but the batch reports {[(it['index'], it['status'], it['err_msg']) for it in bad]}",
                  summary=str(summary))
        succ = [r for r in be.log if r["path"] == path and not r.get("external") and r["u"]["Action"] == "SUCCEED"]
        if succ and n_each >= 140_000:
            u = succ[0]["u"]
            if not (u.get("ContextOptions") or {}).get("ReplayChildren"):
                V(out, "C16", "oversized-result-without-replay-children", f"{d.program['name']}: batch result recorded without ReplayChildren")
            pl = u.get("Payload") or ""
            if summary == "custom" and pl != json.dumps({"summary": True}):
                V(out, "C16", "oversized-result-payload-is-not-the-summary", f"{d.program['name']}: payload {pl[:80]!r}", summary="custom")
            if summary in ("default", "sdk-default"):
                try:
                    s = json.loads(pl)
                    ok = s.get("totalCount") == 2 and s.get("successCount") == 2
                except Exception:  # noqa: BLE001
                    ok = False
                if not ok:
                    V(out, "C16", "oversized-result-payload-is-not-the-summary", f"{d.program['name']}: payload {pl[:120]!r}", summary="default")
    if "policy" in meta:
        out.extend(_replays(d, tuple(meta["policy"][0])))
    if "handler" in meta:
        target, err = meta["handler"]
        last = d.invocations[-1]
        o = last.get("out") if last["outcome"] == "returned" else None
        if not isinstance(o, dict):
            if not any(i.get("faults") or i.get("crash") for i in d.invocations):
                V(out, "C16", "handler-outcome-missing", f"{d.program['name']}: last invocation {last['outcome']} {last.get('exc')}")
            return out
        er = be.exec_result
        inline = (o.get("Error") is not None) if err else bool(o.get("Result"))
        if target > RESP_HARD:
            if inline:
                V(out, "C16", "oversized-outcome-returned-inline", f"{d.program['name']}: {target} characters returned in the response",
                  what="error" if err else "result")
            if er is None or not last.get("exec_result_at_return"):
                V(out, "C16", "oversized-outcome-not-recorded-before-return",
                  f"{d.program['name']}: status {o.get('Status')} reported without an accepted EXECUTION record", what="error" if err else "result")
            elif not err and len(er["payload"] or "") != target:
                V(out, "C16", "execution-record-payload-wrong", f"{d.program['name']}: EXECUTION record holds {len(er['payload'] or '')} characters, result has {target}")
            elif err and not (er["error"] or {}).get("ErrorMessage"):
                V(out, "C16", "execution-record-payload-wrong", f"{d.program['name']}: EXECUTION FAIL record without the error")
        elif target <= RESP_SDK:
            if not inline or er is not None:
                V(out, "C16", "small-outcome-not-returned-inline",
                  f"{d.program['name']}: {target} characters (within the limit) were not returned in the response (record: {er is not None})")
        else:
            if not inline and (er is None or not last.get("exec_result_at_return")):
                V(out, "C16", "oversized-outcome-not-recorded-before-return", f"{d.program['name']}: neither inline nor recorded")
        want_status = "FAILED" if err else "SUCCEEDED"
        if o.get("Status") != want_status:
            V(out, "C16", "handler-status-wrong", f"{d.program['name']}: status {o.get('Status')}, expected {want_status}")
    return out


def _replays(d, path):
    """After the completion record of `path`: equal deliveries, no function of a completed
    step re-entered, no new record under it."""
    out = []
    be, w = d.backend, d.world
    done = [n for n, r in enumerate(be.log) if r["path"] == path and not r.get("external") and r["u"]["Action"] in ("SUCCEED", "FAIL")]
    if not done:
        return out
    inv_done = be.log[done[0]]["inv"]
    for r in be.log[done[0] + 1:]:
        if r.get("external") or r["path"] is None:
            continue
        if r["path"] == path or _is_prefix(path, r["path"]):
            V(out, "C16", "new-record-under-completed-context-on-replay",
              f"{d.program['name']}: {r['u']['Type']} {r['u']['Action']} for {fmt_path(r['path'])} sent in invocation {r['inv']} "
              f"after {fmt_path(path)} had been recorded", action=r["u"]["Action"])
    ds = [o for o in w.obs if o["path"] == path and o["kind"] in ("ret", "exc")]
    if ds:
        for o in ds[1:]:
            if (o["kind"], o["r"]) != (ds[0]["kind"], ds[0]["r"]):
                V(out, "C16", "replayed-result-differs",
                  f"{d.program['name']}: {fmt_path(path)} delivered {ds[0]['r'][:80]} first and {o['r'][:80]} in invocation {o['inv']}")
                break
        n_replays = len({o["inv"] for o in ds}) - 1
        if d.final and d.final.get("status") == "SUCCEEDED" and n_replays < 1 and not d.program["meta"].get("handler"):
            V(out, "C16", "harness-no-replay", f"{d.program['name']}: the program did not replay the context (harness error)")
    for e in w.entries:
        if e["kind"] == "step" and _is_prefix(path, e["path"]) and e["inv"] > inv_done:
            V(out, "C16", "completed-step-re-executed-on-replay",
              f"{d.program['name']}: step {fmt_path(e['path'])} ran again in invocation {e['inv']}")
    return out


def space(tier):
    quick = tier == "quick"
    cap = 3_000 if quick else 100_000
    units = []
    for p in programs(tier):
        if "handler" in p["meta"]:
            units.append(({"program": p, "cfg": {"env_kinds": [], "max_steps": 200_000}}, {"total": 0}, cap))
            if p["meta"]["handler"][0] > RESP_SDK:
                units.append(({"program": p, "cfg": {"env_kinds": ["crash"], "crash_sites": ["before-call", "after-apply", "after-return"]}},
                              {"crash": 1, "total": 1}, cap))
            continue
        units.append(({"program": p, "cfg": {"env_kinds": ["crash", "page"], "page_modes": [0, 1, 4]}},
                      {"crash": 1, "page": 1, "total": 1}, cap))
        if not quick:
            units.append(({"program": p, "cfg": {"env_kinds": ["crash"]}}, {"crash": 2, "total": 2}, cap))
            for pol in ("low", "high"):
                units.append(({"program": p, "cfg": {"env_kinds": [], "policy": pol}}, {"total": 0}, cap))
    return units


simcheck.install(globals(), "C16", [judge], space,
                 "child context results of 256KB-1 / 256KB / 256KB+1 / 300000 characters with and without a summary generator "
                 "(also nested in another child); parallel and map whose branches fit but whose batch result does not "
                 "(no/custom/default summary generator), where everything fits, and where every branch is oversized too; "
                 "each followed by two waits and a step (>=2 replays), every single crash point and pagination modes "
                 "{none, 1-row pages, paginated checkpoint responses}; handler results of limit-1/limit/limit+1/6MB+1 "
                 "and handler errors around the limit, with a crash around the EXECUTION record")
