"""C12 - step retries: attempts counted exactly, bounded, durably scheduled.
(i) whole executions: one step x retry strategies x failure patterns x every crash point;
(ii) bounded exhaustive enumeration of create_retry_strategy configurations."""
from __future__ import annotations

import itertools
import math

from vcheck import common
from vcheck.props import simcheck
from vcheck.sim.backend import fmt_path
from vcheck.sim.monitors import V
from vcheck.vsched import prims

MOD = "vcheck.props.c12"

STRATS = {
    "t1": {"table": [1, "no"]}, "t13": {"table": [1, 3, "no"]}, "t0": {"table": [0, "no"]}, "k02": {"table": [0, 2, "no"], "ctor": True},
    "t303": {"table": [3, 0, 3, "no"]}, "none": "none", "only-boom": {"table": [1, 1, "no"], "only": ["Boom"]},
    "pk3": {"packaged": {"max_attempts": 3, "initial": 1, "max": 10, "rate": 2, "jitter": "NONE"}},
    "pk2full": {"packaged": {"max_attempts": 2, "initial": 2, "max": 5, "rate": 3, "jitter": "FULL"}},
}
MAXA = {"t1": 2, "t13": 3, "t0": 2, "k02": 3, "t303": 4, "none": 1, "only-boom": 3, "pk3": 3, "pk2full": 2}
PATTERNS = {"ok": 0, "fail1": 1, "fail2": 2, "fail3": 3, "always": 99, "bam": "bam", "sdkerr2": 2}


def step(sn, pn, sem=None):
    st = _step(sn, pn)
    if sem:
        st["body"]["sem"] = sem
        st["catch"] = ["CallableRuntimeError", "StepInterruptedError"]
    return st


def _step(sn, pn):
    if pn == "bam":
        fn = {"raise": "Bam", "msg": "not-retryable"}
    elif pn == "always":
        fn = {"raise": "Boom", "msg": "always"}
    elif pn == "ok":
        fn = {"ret": "v"}
    elif pn == "sdkerr2":
        # user code inside the step fails with one of the SDK's own exception classes (e.g. while decoding a payload with
        # the SDK's serializer): still a step failure, handled by the retry strategy
        fn = {"fail": 2, "cls": "SerDesError", "then": {"ret": "v"}}
    else:
        fn = {"fail": PATTERNS[pn], "then": {"ret": "v"}}
    return {"k": "try", "catch": ["CallableRuntimeError"], "body": {"k": "step", "fn": fn, "retry": STRATS[sn]}}


def programs():
    out = []
    for sn in STRATS:
        for pn in PATTERNS:
            meta = {"strat": sn, "pattern": pn, "max_attempts": MAXA[sn]}
            out.append({"name": f"step[{sn}/{pn}]", "meta": meta, "seq": [step(sn, pn), {"k": "step", "fn": {"ret": "after"}}]})
    # at-most-once steps: an interrupted attempt consults the strategy with StepInterruptedError
    for sn, pn in (("t13", "fail2"), ("t1", "fail1"), ("t303", "fail3"), ("t13", "always"), ("pk3", "fail2")):
        meta = {"strat": sn, "pattern": pn, "max_attempts": MAXA[sn], "most": True}
        out.append({"name": f"most-step[{sn}/{pn}]", "meta": meta,
                    "seq": [step(sn, pn, sem="most"), {"k": "step", "fn": {"ret": "after"}}]})
    for sn, pn in (("t13", "fail2"), ("t1", "always"), ("t0", "fail1")):
        meta = {"strat": sn, "pattern": pn, "max_attempts": MAXA[sn], "path": [1, "b0", 1]}
        out.append({"name": f"par[step[{sn}/{pn}],S]", "meta": meta,
                    "seq": [{"k": "par", "cfg": {"cc": "all_completed"}, "branches": [[step(sn, pn)], [{"k": "step", "fn": {"ret": "s"}}]]}]})
    return out


def judge(d, _=None):
    out = []
    m = d.program["meta"]
    path = tuple(m.get("path", [1]))
    sn, pn, maxa = m["strat"], m["pattern"], m["max_attempts"]
    be, w = d.backend, d.world
    ents = [e for e in w.entries if e["path"] == path and e["kind"] == "step"]
    log = [r for r in be.log if r["path"] == path and not r.get("external")]
    retries = [r for r in log if r["u"]["Action"] == "RETRY"]
    fails = [r for r in log if r["u"]["Action"] == "FAIL"]
    calls = [c for c in w.strat_calls if c["path"] == path]
    crashes = [i["crash"]["tick"] for i in d.invocations if i.get("crash")]
    feat = {"strategy": "packaged" if sn.startswith("pk") else ("preset-none" if sn == "none" else "custom")}
    # strategy arguments: attempts made so far = 1 + accepted retries
    for c in calls:
        n_ret = sum(1 for r in retries if r["tick"] < c["tick"])
        if c["attempts_made"] != n_ret + 1:
            V(out, "C12", "strategy-called-with-wrong-attempt-count",
              f"{d.program['name']}: strategy consulted with attempts_made={c['attempts_made']} after {n_ret} recorded "
              f"retries (invocation {c['inv']})", **feat)
    # every RETRY: delay >= 1, equals the strategy's (clamped) delay, and count bounded
    for r in retries:
        dly = (r["u"].get("StepOptions") or {}).get("NextAttemptDelaySeconds")
        if dly is None or dly < 1:
            V(out, "C12", "retry-delay-below-one-second", f"{d.program['name']}: RETRY recorded with delay {dly}", **feat)
        prev = [c for c in calls if c["tick"] < r["tick"]]
        if prev and prev[-1]["retry"] and dly != max(1, prev[-1]["delay"]):
            V(out, "C12", "retry-delay-differs-from-strategy",
              f"{d.program['name']}: strategy said {prev[-1]['delay']} s, RETRY recorded {dly} s", **feat)
    if sn != "none" and len(retries) > maxa - 1:
        V(out, "C12", "more-retries-than-max-attempts",
          f"{d.program['name']}: {len(retries)} RETRY records, strategy allows {maxa - 1}", **feat)
    # re-entry only after an accepted retry (unless a crash lost the attempt's outcome)
    done = [e for e in ents if e.get("exit") in ("ret", "raise")]
    for a, b in zip(ents, ents[1:]):
        if a.get("exit") == "raise" and b["attempt"] <= a["attempt"]:
            lost = any(a["exit_tick"] <= ct <= b["tick"] for ct in crashes)
            if not lost:
                V(out, "C12", "re-entered-without-recorded-retry",
                  f"{d.program['name']}: attempt {a['attempt'] + 1} failed and the function was entered again "
                  f"(invocation {b['inv']}) without an accepted RETRY record in between", **feat)
    # number of completed entries
    if d.final and d.final.get("status") in ("SUCCEEDED", "FAILED"):
        if pn == "bam":
            failures = 99 if sn != "only-boom" else 0   # only-boom: Bam is not retryable -> one entry
            expected = 1 if sn == "only-boom" else min(100, maxa)
        else:
            failures = PATTERNS[pn]
            expected = min(failures + 1, maxa)
            if pn == "sdkerr2" and sn == "only-boom":
                expected = 1   # the error class is not in the strategy's retryable list
        n_done = len(done)
        if m.get("most") and crashes:
            pass
        elif not crashes:
            if n_done != expected:
                V(out, "C12", "function-ran-wrong-number-of-times",
                  f"{d.program['name']}: function ran {n_done} times, expected min(failures+1, max_attempts) = {expected}",
                  **feat)
        elif n_done > expected + len(crashes) or n_done < min(expected, 1):
            V(out, "C12", "function-ran-wrong-number-of-times",
              f"{d.program['name']}: function ran {n_done} times with {len(crashes)} crash(es), expected about {expected}", **feat)
    # a decline is durably recorded, raised, and final
    declines = [c for c in calls if not c["retry"]]
    for c in declines:
        later_fail = [r for r in fails if r["tick"] > c["tick"]]
        crashed_after = any(ct > c["tick"] for ct in crashes)
        if not later_fail and not crashed_after:
            V(out, "C12", "decline-not-recorded", f"{d.program['name']}: strategy declined but no FAIL record followed", **feat)
    if fails:
        t_fail = fails[0]["tick"]
        late = [e for e in ents if e["tick"] > t_fail]
        if late:
            V(out, "C12", "entered-after-final-failure",
              f"{d.program['name']}: function entered in invocation {late[0]['inv']} after the FAIL record", **feat)
        delivered = [o for o in w.obs if o["path"] == path and o["tick"] > t_fail and o["kind"] in ("ret", "exc")]
    # the final failure is raised only once the FAIL record has been accepted
    for o in w.obs:
        if o["path"] == path and o["kind"] == "exc" and not o.get("invocation_error") and o["r"].startswith("exc:CallableRuntimeError"):
            if o["row_status"] != "FAILED":
                V(out, "C12", "failure-raised-before-it-was-recorded",
                  f"{d.program['name']}: the step's error was raised in invocation {o['inv']} while the backend row was "
                  f"{o['row_status']}", **feat)
    if fails:
        for o in delivered:
            if o["kind"] != "exc":
                V(out, "C12", "final-failure-not-raised", f"{d.program['name']}: after FAIL the call delivered {o['r']}", **feat)
    return out


def exec_one(unit, prefix, expect=None):
    return simcheck.exec_with([judge], unit, prefix, expect)


# ----------------------------------------------------------------------------- (ii) packaged strategies
def grid_chunk(arg):
    from aws_durable_execution_sdk_python.config import Duration, JitterStrategy
    from aws_durable_execution_sdk_python.retries import RetryPresets, RetryStrategyConfig, create_retry_strategy
    k, nch, rvals = arg
    viol = {}
    n = 0

    def bad(clause, msg):
        sig = f"C12/packaged/{clause}"
        viol.setdefault(sig, {"sig": sig, "msg": msg, "replay": {"grid": True, "sig": sig}})

    same_base = {}
    combos = list(itertools.product(range(1, 7), (1, 2, 5, 100), (1, 10, 300), (1, 1.5, 2, 3), ("NONE", "HALF", "FULL")))
    for idx, (maxa, init, mx, rate, jit) in enumerate(combos):
        if idx % nch != k:
            continue
        strat = create_retry_strategy(RetryStrategyConfig(max_attempts=maxa, initial_delay=Duration(seconds=init),
                                                          max_delay=Duration(seconds=mx), backoff_rate=rate,
                                                          jitter_strategy=JitterStrategy(jit)))
        for attempt in range(1, maxa + 2):
            prev = None
            for r in rvals:
                prims.RANDOM_OVERRIDE = r
                dec = strat(ValueError("x"), attempt)
                n += 1
                cfgs = f"max_attempts={maxa} initial={init} max={mx} rate={rate} jitter={jit} attempt={attempt} r={r}"
                if attempt >= maxa:
                    if dec.should_retry:
                        bad("retries-beyond-max-attempts", f"{cfgs}: should_retry=True")
                    continue
                if not dec.should_retry:
                    bad("declines-before-max-attempts", f"{cfgs}: should_retry=False")
                    continue
                dly = dec.delay_seconds
                base = min(init * rate ** (attempt - 1), mx)
                if dly < 1 or dly > max(1, math.ceil(mx)):
                    bad("delay-outside-1-to-max", f"{cfgs}: delay {dly}")
                if jit == "NONE" and dly != max(1, math.ceil(base)):
                    bad("backoff-not-followed", f"{cfgs}: delay {dly}, expected {max(1, math.ceil(base))}")
                if jit == "HALF" and not (max(1, math.ceil(base / 2)) <= dly <= max(1, math.ceil(base))):
                    bad("half-jitter-out-of-range", f"{cfgs}: delay {dly} not in [{math.ceil(base / 2)}, {math.ceil(base)}]")
                if jit == "FULL" and not (1 <= dly <= max(1, math.ceil(base))):
                    bad("full-jitter-out-of-range", f"{cfgs}: delay {dly} not in [1, {math.ceil(base)}]")
                if prev is not None and dly < prev:
                    bad("jitter-not-monotone-in-random", f"{cfgs}: delay {dly} < {prev} for a larger random value")
                prev = dly
                # jitter is applied to the configured backoff value (capped at max_delay): two configurations /
                # attempts with the same backoff value and the same random draw get the same delay
                key = (jit, round(base, 9), r)
                if key in same_base and same_base[key][0] != dly:
                    bad("delay-not-a-function-of-capped-backoff",
                        f"{cfgs}: delay {dly}, but {same_base[key][1]} has the same backoff value {base} and got {same_base[key][0]}")
                same_base.setdefault(key, (dly, cfgs))
    if k == 0:
        prims.RANDOM_OVERRIDE = 0.5
        # error filters
        class E1(Exception):
            pass

        class E2(Exception):
            pass
        import re
        s1 = create_retry_strategy(RetryStrategyConfig(max_attempts=3, retryable_error_types=[E1]))
        s2 = create_retry_strategy(RetryStrategyConfig(max_attempts=3, retryable_errors=["transient", re.compile(r"^code-\d+$")]))
        s3 = create_retry_strategy(RetryStrategyConfig(max_attempts=3, retryable_errors=[], retryable_error_types=[]))
        cases = [(s1, E1("x"), True), (s1, E2("x"), False), (s2, E2("a transient thing"), True), (s2, E2("code-12"), True),
                 (s2, E2("code-x"), False), (s3, E1("x"), False)]
        for s, e, want in cases:
            n += 1
            if s(e, 1).should_retry != want:
                bad("error-filter", f"filter case {type(e).__name__}({e}) expected retry={want}")
        presets = {"none": (RetryPresets.none, 1), "default": (RetryPresets.default, 6), "transient": (RetryPresets.transient, 3),
                   "resource_availability": (RetryPresets.resource_availability, 5), "critical": (RetryPresets.critical, 10)}
        for name, (mk, maxa) in presets.items():
            s = mk()
            for attempt in range(1, maxa + 2):
                for r in rvals:
                    prims.RANDOM_OVERRIDE = r
                    dec = s(ValueError("x"), attempt)
                    n += 1
                    if dec.should_retry != (attempt < maxa):
                        bad("preset-attempt-bound", f"preset {name}: attempt {attempt} should_retry={dec.should_retry}")
                    if dec.should_retry and dec.delay_seconds < 1:
                        bad("delay-outside-1-to-max", f"preset {name}: delay {dec.delay_seconds}")
    prims.RANDOM_OVERRIDE = None
    return {"n": n, "viol": list(viol.values())}


def space(tier):
    quick = tier == "quick"
    cap = 30_000 if quick else 600_000
    units = []
    for p in programs():
        units.append(({"program": p, "cfg": {"env_kinds": ["crash"]}},
                      {"crash": 1, "total": 1} if quick else {"crash": 3, "total": 3}, cap))
        if not quick:
            units.append(({"program": p, "cfg": {"env_kinds": ["crash", "page"], "page_modes": [0, 1, 3, 5]}},
                          {"crash": 2, "page": 2, "total": 3}, cap))
        if "par[" in p["name"]:
            for pol in ("low", "high"):
                units.append(({"program": p, "cfg": {"env_kinds": ["crash"], "policy": pol}}, {"crash": 1, "total": 1}, cap))
    for sn, pn in (("t13", "fail2"), ("t1", "always"), ("t303", "fail3")):
        p = [x for x in programs() if x["name"] == f"step[{sn}/{pn}]"][0]
        units.append(({"program": p, "cfg": {"env_kinds": ["crash"]}}, {"crash": 2, "total": 2}, cap))
    for p in programs():
        if p["meta"].get("most"):
            units.append(({"program": p, "cfg": {"env_kinds": ["crash"]}}, {"crash": 2, "total": 2}, cap))
    return units


def run(ctx):
    quick = ctx.tier == "quick"
    units = space(ctx.tier)
    cov, viols, internal = common.explore_units(ctx, MOD, units, label=simcheck.label)
    rvals = [0.0, 0.25, 0.5, 0.999999] if quick else [0.0, 1e-9, 0.1, 0.25, 0.5, 0.75, 0.9, 0.999999]
    res = ctx.pmap(MOD, "grid_chunk", [(k, 16, rvals) for k in range(16)])
    n = sum(r["n"] for r in res)
    for r in res:
        viols.extend(r["viol"])
    cov["states"] += n
    cov["transitions"] += n
    cov["traces_validated_against_impl"] += n
    cov["packaged_strategy_calls"] = n
    cov["bounds"] = ("(i) one step (top level, and inside a parallel branch) x 8 strategies (decision tables with delays 0/1/3, "
                     "error-class filter, preset none, two packaged configs) x 6 failure patterns (ok, fail 1/2/3 times, always, "
                     "non-retryable class), five at-most-once variants (pairs of crash points) x every crash point (pairs on three programs in quick; thorough: triples, and pairs combined with every pagination mode of the replays); "
                     "(ii) create_retry_strategy over max_attempts 1..6 x initial {1,2,5,100} x max {1,10,300} x rate "
                     "{1,1.5,2,3} x jitter {NONE,HALF,FULL} x every attempt 1..max+1 x 4 (quick) / 8 (thorough) values of "
                     "random.random, error filters, the five presets")
    cov["explanation"] = "(i) executions through the production entry point; (ii) enumerated calls of the real strategy functions"
    return {"coverage": cov, "violations": viols, "internal": internal,
            "assumptions": ["backend counts attempts by RETRY records", "max_delay >= 1 s"]}


def replay(rep):
    r = rep["replay"]
    if r.get("grid"):
        out = []
        for k in range(16):
            out += grid_chunk((k, 16, [0.0, 0.25, 0.5, 0.999999]))["viol"]
        return {"violations": [{"sig": v["sig"], "msg": v["msg"]} for v in out if v["sig"] == r["sig"]]}
    unit = {"program": r["program"], "cfg": r["cfg"]}
    res = exec_one(unit, r["prefix"], expect=r.get("options"))
    return {"violations": [{"sig": v["sig"], "msg": v["msg"]} for v in res.violations], "internal": res.internal,
            "summary": res.info["driver"].summary()}
