"""C17 - the context logger is silent while replaying completed work, audible afterwards.
Space: sequential programs of <=3 units over 10 unit kinds with a log call in every gap and
inside every step body; every history a suspension or a single crash can leave behind; every
pagination split of that history."""
from __future__ import annotations

import itertools

from vcheck.props import simcheck
from vcheck.sim.backend import ARN, fmt_path
from vcheck.sim.monitors import V

UNITS = {
    "S": [{"k": "step", "fn": {"ret": 1}, "log": "in-step"}],
    "W": [{"k": "wait", "s": 1}],
    "R": [{"k": "step", "fn": {"fail": 1, "then": {"ret": "ok"}}, "retry": {"table": [1, "no"]}, "log": "in-step"}],
    "F": [{"k": "try", "catch": ["CallableRuntimeError"], "body": {"k": "step", "fn": {"raise": "Boom", "msg": "x"}, "retry": "none", "log": "in-step"}}],
    "H": [{"k": "child", "body": [{"k": "step", "fn": {"ret": 5}, "log": "in-step"}, {"k": "step", "fn": {"ret": 6}, "log": "in-step"}]}],
    "Hw": [{"k": "child", "body": [{"k": "step", "fn": {"ret": 5}, "log": "in-step"}, {"k": "wait", "s": 1}, {"k": "step", "fn": {"ret": 6}, "log": "in-step"}]}],
    "K": [{"k": "wfcb", "submit": {"ret": None}, "log": "in-submitter"}],
    "C": [{"k": "cb"}],
    # a callback that stays pending while later operations complete; its result is awaited last
    "Cx": [{"k": "cb", "between": [{"k": "log", "label": "x1"}, {"k": "step", "fn": {"ret": 7}, "log": "in-step"},
                                   {"k": "log", "label": "x2"}, {"k": "wait", "s": 1}, {"k": "log", "label": "x3"}]}],
    "P": [{"k": "par", "cfg": {"cc": "all_completed"}, "branches": [[{"k": "step", "fn": {"ret": "A"}}], [{"k": "step", "fn": {"ret": "B"}}]]}],
    # early completion: a branch with a completed inner step is left STARTED under the completed parallel
    "Pe": [{"k": "par", "cfg": {"cc": "first"}, "branches": [
        [{"k": "step", "fn": {"sleep": 1, "then": {"ret": "winner"}}}],
        [{"k": "step", "fn": {"ret": "inner-done"}}, {"k": "step", "fn": {"sleep": 5, "then": {"ret": "late"}}}]]}],
    "M": [{"k": "map", "items": [1, 2], "cfg": {"cc": "all_completed"}, "body": [{"k": "step", "fn": {"item": True}}]}],
    # results above the 256 KB checkpoint limit: recorded as a summary, the body is traversed again on replay
    "Mbig": [{"k": "map", "items": [1, 2, 3], "cfg": {"cc": "all_completed"}, "body": [{"k": "step", "fn": {"bytes": 100_000}}]}],
    "Hbig": [{"k": "child", "body": [{"k": "step", "fn": {"ret": 5}, "log": "in-step"}], "big": 270_000}],
    "N": [{"k": "wfc", "init": 0, "decide": [{"cont": 1}, "stop"], "log": "in-check"}],
}
FEATURE = {"S": "step", "W": "wait", "R": "retried-step", "F": "caught-failed-step", "H": "child-context", "Hw": "child-context",
           "K": "wait_for_callback", "C": "callback", "P": "parallel", "M": "map", "N": "wait_for_condition",
           "Pe": "parallel-early-completion", "Cx": "pending-callback-then-completed-ops",
           "Mbig": "oversized-map", "Hbig": "oversized-child"}
UNIT_OPS = {"Cx": 3}   # durable operations a unit starts on the top-level context (default 1)


def program(names):
    import copy
    seq = [{"k": "log", "label": "g0"}]
    for i, n in enumerate(names):
        seq.extend(copy.deepcopy(UNITS[n]))
        seq.append({"k": "log", "label": f"g{i + 1}"})
    op_unit = [n for n in names for _ in range(UNIT_OPS.get(n, 1))]
    return {"name": "+".join(names), "meta": {"units": list(names), "op_unit": op_unit}, "seq": seq}


def programs(tier):
    quick = tier == "quick"
    names = list(UNITS)
    out = [program((a,)) for a in names]
    out += [program((a, b)) for a, b in itertools.product(names, repeat=2)]
    third = ["S", "W", "F", "H", "C"] if quick else names
    first2 = ["S", "W", "R", "F", "H", "K", "P", "N", "Pe", "Cx", "Mbig"] if quick else names
    out += [program((a, b, c)) for a in first2 for b in first2 for c in third]
    if not quick:
        four = ["S", "W", "F", "H"]
        out += [program(t) for t in itertools.product(four, repeat=4)]
    return out


def judge(d, _=None):
    out = []
    w, be = d.world, d.backend
    units = d.program["meta"]["units"]
    for inv in d.invocations:
        k = inv["n"]
        made = [c for c in w.log_calls if c["inv"] == k]
        emitted = [l for l in w.logs if l["inv"] == k]
        em_labels = {}
        for l in emitted:
            em_labels.setdefault(l["msg"], []).append(l)
        done = inv["terminal_at_start"]
        first = inv["history_rows"] <= 1
        if not first and not done:
            continue  # history holds only unfinished operations: the statement leaves this case open
        u_star = max((p[0] for p in done if isinstance(p[0], int)), default=0)
        op_unit = d.program["meta"].get("op_unit") or units
        culprit = FEATURE[op_unit[u_star - 1]] if u_star else "none"
        split = "first-page-execution-only" if inv["first_page_rows"] <= 1 and inv["history_rows"] > 1 else "other"
        counts = {}
        for c in made:
            counts[c["label"] + str(c.get("path"))] = counts.get(c["label"] + str(c.get("path")), 0) + 1
        for c in made:
            lab = c["label"]
            was = [l for l in em_labels.get(lab, []) if abs(l["tick"] - c["tick"]) <= 3]
            is_emitted = bool(was)
            if c["where"] == "gap":
                j = c.get("after_ops")   # durable operations started on the top-level context before this call
                if j is None:
                    continue
                want = True if first else (j >= u_star)
            else:
                p = c["path"]
                in_concurrent = any(isinstance(x, str) and x.startswith("b") for x in p)
                if in_concurrent:
                    continue
                want = True
            if want and not is_emitted:
                V(out, "C17", "log-call-swallowed",
                  f"{d.program['name']}: invocation {k} (history: {len(done)} completed, last completed unit {u_star}) "
                  f"did not emit log call {lab!r} ({c['where']}) although execution had passed the last completed operation",
                  after=culprit, where=c["where"], first_invocation=first)
            if not want and is_emitted:
                V(out, "C17", "replayed-log-call-emitted",
                  f"{d.program['name']}: invocation {k} emitted log call {lab!r} which precedes completed unit {u_star} "
                  f"(first page held {inv['first_page_rows']} of {inv['history_rows']} rows)", split=split)
            for l in was:
                ex = l["extra"]
                if ex.get("executionArn") != ARN:
                    V(out, "C17", "record-without-execution-arn", f"{d.program['name']}: extras {ex}")
                if c["where"] in ("step", "check"):
                    oid = be.id_of.get(c["path"])
                    if ex.get("operationId") != oid or ex.get("operationName") != c["name"] or ex.get("attempt") != c["attempt"]:
                        V(out, "C17", "step-record-identifiers-wrong",
                          f"{d.program['name']}: step log extras {ex}, expected operationId={oid} name={c['name']} attempt={c['attempt']}",
                          where=c["where"])
                    if len(c["path"]) > 1:
                        pid = be.id_of.get(c["path"][:-1])
                        if ex.get("parentId") != pid:
                            V(out, "C17", "step-record-parent-wrong", f"{d.program['name']}: extras {ex}, expected parentId={pid}")
    return out


def space(tier):
    quick = tier == "quick"
    cap = 20_000 if quick else 400_000
    units = []
    pages = [0, 1, 2, 3, 10, 12, 13, 14, 16]
    # a FIRST invocation whose payload is paginated (EXECUTION row alone, on a later page, or followed by an empty page)
    for names in (("S",), ("W",), ("H",), ("S", "W"), ("C",)):
        units.append(({"program": program(names), "cfg": {"env_kinds": ["page"], "first_page_modes": [0, 3, 6, 1], "page_modes": [0, 1]}},
                      {"page": 2, "total": 2}, cap))
    for p in programs(tier):
        n = len(p["meta"]["units"])
        if n == 1 or (n == 2 and True):
            units.append(({"program": p, "cfg": {"env_kinds": ["crash", "page"], "page_modes": pages}},
                          {"crash": 1, "page": 1, "total": 2 if n == 1 else 1}, cap))
        else:
            units.append(({"program": p, "cfg": {"env_kinds": ["page"], "page_modes": [0, 1, 2, 3]}},
                          {"page": 1, "total": 1}, cap))
    return units


simcheck.install(globals(), "C17", [judge], space,
                 "programs: every sequence of <=2 units over {step, wait, retried step, caught failed step, child[step;step], "
                 "child[step;wait;step], wait_for_callback, callback, parallel, parallel with early completion, map, wait_for_condition}, length 3 over 8x8x5 "
                 "(quick) / all (thorough), length 4 over 4 kinds (thorough); a log call before, between and after the units "
                 "and inside every step/check/submitter body; histories: every suspension point and every single crash point "
                 "(length <=2), every pagination split (first page = 0..6 rows or EXECUTION only / +1, later pages of 1, 2 "
                 "or all); five programs whose FIRST invocation receives a paginated payload (empty first page, or a trailing empty page)")
