"""C03 - write-ahead: no outcome visible before the backend accepted its record.
Space: one/two-unit programs of every operation kind x all schedules within 2 deviations
(thread choices and 'timeout fires first') x every API call black-holed or failed."""
from __future__ import annotations

from vcheck.props import simcheck
from vcheck.sim import monitors, programs as P

ONE = ["S", "Sm", "R", "W", "C", "Cs", "K", "I", "N", "H", "P", "M", "F", "Pw", "Pe", "Me", "Fi", "Fs"]
TWO = [("Fi", "S"), ("Fs", "W"), ("Pe", "S"), ("S", "W"), ("Sm", "S"), ("W", "S"), ("C", "S"), ("H", "S"), ("P", "W"), ("N", "S"), ("I", "W")]


def space(tier):
    quick = tier == "quick"
    cap = 30_000 if quick else 1_000_000
    units = []
    for n in ONE:
        p = P.program((n,))
        conc = n in P.CONCURRENT
        if conc:
            b_sched = {"thread": 1, "timer": 1, "total": 1} if quick else {"thread": 2, "timer": 1, "total": 2}
            b_fault = {"thread": 1, "timer": 1, "fault": 1, "total": 1 if quick else 2}
        else:
            b_sched = {"thread": 2, "timer": 1, "total": 2} if quick else {"thread": 3, "timer": 2, "total": 3}
            b_fault = {"thread": 1, "timer": 1, "fault": 1, "total": 2}
        units.append(({"program": p, "cfg": {"env_kinds": [], "timer_choices": True}}, b_sched, cap))
        units.append(({"program": p, "cfg": {"env_kinds": ["fault"], "faults": ["blackhole", "5xx"], "timer_choices": True}},
                      b_fault, cap))
        for pol in ("low", "high"):
            units.append(({"program": p, "cfg": {"env_kinds": ["fault"], "faults": ["blackhole", "5xx"], "policy": pol}},
                          {"thread": 1, "fault": 1, "total": 1 if quick else 2}, cap))
    for names in TWO:
        p = P.program(names)
        units.append(({"program": p, "cfg": {"env_kinds": ["fault"], "faults": ["blackhole", "5xx"], "timer_choices": True}},
                      {"thread": 1, "timer": 1, "fault": 1, "total": 1 if quick else 2}, cap))
        units.append(({"program": p, "cfg": {"env_kinds": [], "timer_choices": True}},
                      {"thread": 2, "timer": 1, "total": 1 if quick else 2}, cap))
    # records queued behind an in-flight call: the API call takes 50 ms and the step body ends inside it
    for names in (("Sd",), ("Hd",), ("Sd", "S"), ("S", "Sd")):
        p = P.program(names)
        for pol in ("rtb", "low", "high"):
            units.append(({"program": p, "cfg": {"env_kinds": ["fault"], "faults": ["5xx", "blackhole"], "api_latency": 0.05,
                                                 "policy": pol, "timer_choices": pol == "rtb"}},
                          {"fault": 1, "thread": 1, "timer": 1, "total": 2 if pol == "rtb" else 1}, cap))
    # early completion while a sibling's terminal record is queued behind an in-flight call: the slower branch's step
    # ends at every offset of a 50 ms grid inside / around the 300 ms (and 50 ms) API calls of the faster branch
    for lat in (0.05, 0.3):
        for dms in (50, 150, 250, 350, 450, 550, 650):
            p = {"name": f"Pe[slow-branch-step={dms}ms;api={int(lat * 1000)}ms]", "seq": [
                {"k": "par", "cfg": {"cc": "first"}, "branches": [
                    [{"k": "step", "fn": {"ret": "A"}}],
                    [{"k": "step", "fn": {"sleep": dms / 1000.0, "then": {"ret": "B1"}}}, {"k": "step", "fn": {"ret": "B2"}}]]},
                {"k": "step", "fn": {"ret": "after"}}]}
            units.append(({"program": p, "cfg": {"env_kinds": [], "api_latency": lat, "timer_choices": True}},
                          {"thread": 1, "timer": 1, "total": 1}, cap))
    # one preemption at any line of threading.py / state.py while a call fails (waiters released between two lines)
    import aws_durable_execution_sdk_python.state as _stm
    import aws_durable_execution_sdk_python.threading as _thm
    for n in ("S", "Sm", "W", "C"):
        units.append(({"program": P.program((n,)), "cfg": {"env_kinds": ["fault"], "faults": ["5xx"],
                                                          "line_files": [_stm.__file__, _thm.__file__]}},
                      {"fault": 1, "thread": 1, "total": 2}, cap))
    big = {"name": "S+bigresult", "seq": P.U("S"), "ret": {"pad": 6 * 1024 * 1024}}
    units.append(({"program": big, "cfg": {"env_kinds": ["fault"], "faults": ["blackhole", "5xx"]}},
                  {"fault": 1, "total": 1}, cap))
    units.append(({"program": big, "cfg": {"env_kinds": []}}, {"thread": 1, "total": 1}, 60))
    return units


simcheck.install(globals(), "C03", [monitors.judge_c03], space,
                 "programs: 14 one-unit and 8 two-unit programs over all operation kinds + a handler whose result "
                 "exceeds the response limit; sequential one-unit programs: every schedule with <=2 deviations (thread "
                 "choices and timer-first) and every API call black-holed or failed (5xx) combined with <=1 scheduling "
                 "deviation; 4 programs whose step body ends while a 50 ms checkpoint call is in flight (records queued behind an in-flight call), each call failed or black-holed; 4 programs with a failing call and one preemption at any line of state.py/threading.py; concurrent shapes (parallel/map): <=1 deviation in quick, <=2 in thorough; policies rtb/low/high. Oracle evaluated at the instant of each delivery against the "
                 "backend's own table.")
