"""C09 - map/parallel honour the completion policy and report branches faithfully.
Space: item counts 0..3 x completion configs x concurrency limits x per-branch behaviour x
completion orders; oracle: an independent reference model of the documented policy evaluated
on the world's ground truth."""
from __future__ import annotations

import itertools

from vcheck.props import simcheck
from vcheck.sim.backend import fmt_path
from vcheck.sim.monitors import V

CONFIGS = {
    "default": None,                      # no config object at all (SDK default for the operation)
    "empty": {"cc": "empty"},
    "first": {"cc": "first"},
    "all_completed": {"cc": "all_completed"},
    "all_successful": {"cc": "all_successful"},
    "min1": {"min": 1}, "min2": {"min": 2},
    "tol0": {"tol_n": 0}, "tol1": {"tol_n": 1},
    "pct0": {"tol_pct": 0}, "pct50": {"tol_pct": 50},
    "tol2pct30": {"tol_n": 2, "tol_pct": 30}, "tol0pct50": {"tol_n": 0, "tol_pct": 50},   # both tolerances: either may bind
    "min1tol1": {"min": 1, "tol_n": 1}, "min2tol0": {"min": 2, "tol_n": 0}, "min1pct50": {"min": 1, "tol_pct": 50},
}


def policy(kind, cname):
    """(min_successful, tol_n, tol_pct, criteria?) as documented for CompletionConfig."""
    c = CONFIGS[cname]
    if c is None:
        # documented defaults: parallel -> all_successful(); map -> empty CompletionConfig
        c = {"cc": "all_successful"} if kind == "par" else {"cc": "empty"}
    if c.get("cc") == "first":
        return 1, None, None
    if c.get("cc") in ("all_completed", "empty"):
        return None, None, None
    if c.get("cc") == "all_successful":
        return None, 0, 0
    return c.get("min"), c.get("tol_n"), c.get("tol_pct")


def decided(kind, cname, total, succ, fail):
    """Set of acceptable verdicts {True, False}: is the policy decided after succ/fail outcomes?"""
    mn, tn, tp = policy(kind, cname)
    if succ + fail >= total:
        return {True}
    if mn is not None and succ >= mn:
        return {True}
    if tn is not None and fail > tn:
        return {True}
    if tp is not None and total > 0 and fail / total * 100 > tp:
        return {True}
    if mn is None and tn is None and tp is None and fail > 0:
        return {True, False}   # documentation is contradictory for an empty config: both accepted
    return {False}


def branch(beh, t, i):
    if beh == "ok":
        return [{"k": "step", "fn": {"sleep": t, "then": {"ret": f"v{i}"}}}]
    if beh == "ok0":   # results that are falsy but real
        return [{"k": "step", "fn": {"sleep": t, "then": {"ret": [0, "", [], False, {}][i % 5] if isinstance(i, int) else 0}}}]
    if beh == "okbig":
        return [{"k": "step", "fn": {"sleep": t, "then": {"bytes": 150_000}}}]
    if beh == "fail":
        return [{"k": "step", "fn": {"sleep": t, "then": {"raise": "Boom", "msg": f"err{i}"}}, "retry": "none"}]
    if beh == "block":
        return [{"k": "step", "fn": {"sleep": "forever"}}]
    if beh == "park":
        return [{"k": "wait", "s": 2}, {"k": "step", "fn": {"ret": f"v{i}"}}]
    raise ValueError(beh)


def make(kind, n, cname, maxc, behs, times):
    cfg = dict(CONFIGS[cname] or {})
    if maxc:
        cfg["maxc"] = maxc
    name = f"{kind}{n}[{cname};maxc={maxc};{','.join(b + str(t) for b, t in zip(behs, times))}]"
    meta = {"kind": kind, "n": n, "cname": cname, "maxc": maxc, "behs": list(behs), "times": list(times)}
    if kind == "par":
        op = {"k": "par", "branches": [branch(b, t, i) for i, (b, t) in enumerate(zip(behs, times))], "cfg": cfg}
        if "ok0" in behs:
            op["branch_ret"] = "last"
        if CONFIGS[cname] is None and maxc is None:
            op.pop("cfg")
    else:
        # one body for all items: behaviour by item via a per-item table is not expressible;
        # use parallel for heterogeneous behaviours and map for homogeneous ones
        op = {"k": "map", "items": list(range(n)), "body": branch(behs[0], times[0], "m") if n else branch("ok", 1, "m"), "cfg": cfg}
        if CONFIGS[cname] is None and maxc is None:
            op.pop("cfg")
    return {"name": name, "meta": meta, "seq": [op, {"k": "wait", "s": 1}, {"k": "step", "fn": {"ret": "end"}}]}


def programs(tier):
    quick = tier == "quick"
    out = []
    cnames = list(CONFIGS)
    for n in (0, 1, 2, 3):
        for cname in cnames:
            for maxc in (None, 1, 2):
                if maxc and maxc > max(n, 1) and n:
                    continue
                if n == 0:
                    out.append(make("par", 0, cname, maxc, [], []))
                    out.append(make("map", 0, cname, maxc, [], []))
                    continue
                behsets = list(itertools.product(("ok", "fail"), repeat=n))
                for behs in behsets:
                    perms = list(itertools.permutations(range(1, n + 1)))
                    if quick and n == 3:
                        perms = perms[::2] if maxc is None else perms[:1]
                    if maxc is not None and quick and n >= 2:
                        perms = perms[:2]
                    for times in perms:
                        out.append(make("par", n, cname, maxc, behs, times))
                # homogeneous maps
                for b in ("ok", "fail"):
                    out.append(make("map", n, cname, maxc, [b] * n, [1] * n))
        # a blocked branch next to deciders (only where the policy is decidable without it)
    for cname, behs, times in (("first", ["ok", "block"], [1, 0]), ("min1", ["block", "ok"], [0, 1]),
                               ("tol0", ["fail", "block"], [1, 0]), ("all_successful", ["block", "fail"], [0, 1]),
                               ("min1tol1", ["fail", "ok", "block"], [1, 2, 0]), ("first", ["fail", "ok", "block"], [1, 2, 0])):
        out.append(make("par", len(behs), cname, None, behs, times))
    # oversized batch results (recorded as a summary, rebuilt from the children on replay)
    for cname, behs, times in (("tol1", ["okbig", "fail", "okbig"], [1, 2, 3]), ("pct50", ["okbig", "okbig", "fail"], [1, 2, 3]),
                               ("min2", ["okbig", "okbig", "block"], [1, 2, 0]), ("first", ["okbig", "block"], [1, 0]),
                               ("min1tol1", ["fail", "okbig", "okbig"], [1, 2, 3]), ("all_completed", ["okbig", "okbig"], [1, 2])):
        p = make("par", len(behs), cname, None, behs, times)
        if cname in ("first",):
            p["seq"][0]["branches"][0] = [{"k": "step", "fn": {"sleep": 1, "then": {"bytes": 300_000}}}]
        out.append(p)
    # branch results that are falsy but real (0, "", [], False): first delivery and replay
    out.append(make("par", 3, "all_completed", None, ["ok0", "ok0", "ok0"], [1, 2, 3]))
    out.append(make("par", 3, "min2", None, ["ok0", "ok0", "ok"], [2, 1, 3]))
    out.append(make("par", 2, "first", None, ["ok0", "ok0"], [2, 1]))
    for cname in ("all_completed", "first", "tol0", "default"):
        out.append(make("par", 2, cname, None, ["park", "ok"], [0, 1]))
        out.append(make("par", 2, cname, None, ["park", "fail"], [0, 1]))
    return out


def judge(d, _=None):
    out = []
    meta = d.program["meta"]
    kind, n, cname, maxc, behs, times = (meta[k] for k in ("kind", "n", "cname", "maxc", "behs", "times"))
    obs = [o for o in d.world.obs if o["path"] == (1,) and o["kind"] in ("ret", "exc")]
    feat = {"cfg": cname if cname in ("first", "min1", "min2", "default", "empty") else "other"}
    mn0, tn0, tp0 = policy(kind, cname)
    if not obs:
        if any(i["outcome"] == "hung" for i in d.invocations):
            V(out, "C09", "call-never-returns", f"{d.program['name']}: the call never returned "
              f"({[i['end'] for i in d.invocations]})", items=n, maxc=str(maxc))
        elif d.final and d.final.get("status") not in ("SUCCEEDED",):
            V(out, "C09", "call-never-returns", f"{d.program['name']}: no result was delivered; final {d.final}", items=n)
        return out
    first = obs[0]
    if first["kind"] == "exc":
        V(out, "C09", "call-raised", f"{d.program['name']}: the call raised {first['r']}", items=n, maxc=str(maxc))
        return out
    b = first.get("batch") or {}
    if "malformed" in b:
        V(out, "C09", "malformed-result", f"{d.program['name']}: {b['malformed']}")
        return out
    items = b["items"]
    reason = b["reason"]
    # one item per input, in input order
    if [it["index"] for it in items] != list(range(n)):
        V(out, "C09", "items-not-one-per-input-in-order",
          f"{d.program['name']}: item indexes {[it['index'] for it in items]} for {n} inputs")
        return out
    # ground truth per branch: finished before the call returned?
    bpath = lambda i: (1, f"b{i}")  # noqa: E731
    truth = {}
    for e in d.world.entries:
        if e["kind"] == "branch" and e["path"][:1] == (1,) and len(e["path"]) == 2:
            i = int(e["path"][1][1:])
            if e.get("exit") == "ret":
                truth[i] = ("ok", e["exit_vt"], e.get("returned"), e["inv"])
            elif e.get("exit") == "raise" and i not in truth:
                pass
    # failures: from step observations inside the branch
    for i_, b_ in enumerate(behs):
        if b_ == "okbig" and truth.get(i_, ("",))[0] != "ok":
            pass
    for o in d.world.obs:
        if o["kind"] == "exc" and len(o["path"]) == 3 and o["path"][:1] == (1,) and o["op"] == "step":
            i = int(o["path"][1][1:])
            truth.setdefault(i, ("fail", o["vt"], o["r"], o["inv"]))
    t_ret = first["vt"]
    inv_ret = first["inv"]
    # reported statuses vs ground truth
    for it in items:
        i = it["index"]
        tr = truth.get(i)
        if it["status"] == "SUCCEEDED":
            if not tr or tr[0] != "ok":
                V(out, "C09", "item-reported-succeeded-but-branch-did-not", f"{d.program['name']}: item {i} {it} truth {tr}")
            elif tr[2] != it["result"]:
                V(out, "C09", "item-result-differs-from-branch-result",
                  f"{d.program['name']}: item {i} reports {it['result']} but the branch returned {tr[2]}")
        elif it["status"] == "FAILED":
            if not tr or tr[0] != "fail":
                V(out, "C09", "item-reported-failed-but-branch-did-not", f"{d.program['name']}: item {i} {it} truth {tr}")
            elif f"err{i}" not in (it["err_msg"] or "") and "errm" not in (it["err_msg"] or ""):
                V(out, "C09", "item-error-differs-from-branch-error",
                  f"{d.program['name']}: item {i} reports error {it['err_msg']!r}, branch failed with {tr[2]}")
        elif it["status"] == "STARTED":
            if tr and tr[1] + 0.95 < t_ret and tr[3] == inv_ret and behs and "park" not in behs:
                V(out, "C09", "finished-branch-reported-started",
                  f"{d.program['name']}: item {i} reported STARTED although the branch finished at t={tr[1]} and the "
                  f"call returned at t={t_ret}", **feat)
    succ = sum(1 for it in items if it["status"] == "SUCCEEDED")
    fail = sum(1 for it in items if it["status"] == "FAILED")
    started = sum(1 for it in items if it["status"] == "STARTED")
    # why an early return may have happened (part of the signature)
    if mn0 is not None and tn0 is None and tp0 is None and succ + started < mn0:
        feat = {"why": "min_successful-unreachable"}
    # never earlier than decided
    if True not in decided(kind, cname, n, succ, fail):
        V(out, "C09", "returned-before-policy-decided",
          f"{d.program['name']}: returned {reason} with {succ} succeeded / {fail} failed / {started} started of {n}, "
          f"but the documented policy is not decided yet", **feat)
    # never later: the policy must not have been decided strictly before the last reported outcome
    if "park" not in behs and n and inv_ret == 0:
        evs = sorted((tr[1], i, tr[0]) for i, tr in truth.items()
                     if items[i]["status"] in ("SUCCEEDED", "FAILED"))
        s = f = 0
        for k, (t, i, what) in enumerate(evs):
            if decided(kind, cname, n, s, f) == {True}:
                # decided before this outcome: did the call wait for it although it came >=1 s later?
                prev_t = evs[k - 1][0] if k else 0
                if t >= prev_t + 0.95 and not (maxc and maxc < n):
                    V(out, "C09", "waited-after-policy-decided",
                      f"{d.program['name']}: policy was decided at t={prev_t} but the call also waited for branch {i} "
                      f"(t={t})", **feat)
                break
            s += what == "ok"
            f += what == "fail"
    # reason consistency
    mn, tn, tp = policy(kind, cname)
    if reason == "ALL_COMPLETED" and started:
        V(out, "C09", "reason-ALL_COMPLETED-with-started-items",
          f"{d.program['name']}: reason ALL_COMPLETED but {started} item(s) STARTED", **feat)
    if reason == "MIN_SUCCESSFUL_REACHED" and (mn is None or succ < mn):
        V(out, "C09", "reason-MIN_SUCCESSFUL_REACHED-inconsistent", f"{d.program['name']}: {succ} successes, min_successful {mn}", **feat)
    if reason == "FAILURE_TOLERANCE_EXCEEDED":
        exceeded = (tn is not None and fail > tn) or (tp is not None and n and fail / n * 100 > tp) or \
                   (mn is None and tn is None and tp is None and fail > 0)
        if not exceeded:
            V(out, "C09", "reason-FAILURE_TOLERANCE_EXCEEDED-inconsistent",
              f"{d.program['name']}: {fail} failures of {n}, tolerance count={tn} pct={tp}", **feat)
    # concurrency limit
    if maxc:
        ivs = [(e["vt"], e.get("exit_vt", 1e9), e["tick"], e.get("exit_tick", 1 << 60)) for e in d.world.entries
               if e["kind"] == "branch" and e["path"][:1] == (1,) and len(e["path"]) == 2 and e["inv"] == 0]
        peak = 0
        for a in ivs:
            peak = max(peak, sum(1 for b2 in ivs if b2[2] <= a[2] < b2[3]))
        if peak > maxc:
            V(out, "C09", "concurrency-limit-exceeded", f"{d.program['name']}: {peak} branch bodies ran at once, limit {maxc}")
    # replay delivers the same batch result
    for o in obs[1:]:
        if o["kind"] != "ret" or o["r"] != first["r"]:
            V(out, "C09", "replayed-result-differs",
              f"{d.program['name']}: first delivery {first['r']} (invocation {first['inv']}), replay {o['r']} "
              f"(invocation {o['inv']})", **feat)
            break
    return out


def tie_programs():
    """Branches that finish at the same virtual instant: their done-callbacks race."""
    out = []
    for cname in ("all_completed", "default", "min1tol1", "tol1"):
        for behs in (("ok", "ok"), ("ok", "fail"), ("ok", "ok", "ok"), ("fail", "ok", "ok")):
            out.append(make("par", len(behs), cname, None, behs, [1] * len(behs)))
    out.append(make("map", 2, "all_completed", None, ["ok", "ok"], [1, 1]))
    out.append(make("map", 3, "default", None, ["ok", "ok", "ok"], [1, 1, 1]))
    return out


def space(tier):
    quick = tier == "quick"
    cap = 5_000 if quick else 200_000
    units = []
    # line-level preemption inside the executor (done-callbacks, result building)
    import aws_durable_execution_sdk_python.concurrency.executor as _ex_mod
    lf = [_ex_mod.__file__]
    ties = tie_programs()
    for p in (ties[:4] + ties[-2:]) if quick else ties:
        units.append(({"program": p, "cfg": {"env_kinds": [], "horizon": 40.0, "line_files": lf}},
                      {"thread": 1, "total": 1}, 40_000 if quick else 400_000))
    for p in tie_programs():
        units.append(({"program": p, "cfg": {"env_kinds": [], "horizon": 40.0}},
                      {"thread": 1, "total": 1} if quick else {"thread": 2, "total": 2}, 20_000 if quick else 400_000))
        for pol in ("low", "high", "rr"):
            units.append(({"program": p, "cfg": {"env_kinds": [], "policy": pol, "horizon": 40.0}},
                          {"thread": 1, "total": 1} if not quick else {"total": 0}, 20_000 if quick else 400_000))
    for p in programs(tier):
        units.append(({"program": p, "cfg": {"env_kinds": [], "horizon": 40.0}}, {"total": 0}, cap))
        if not quick:
            for pol in ("low", "high"):
                units.append(({"program": p, "cfg": {"env_kinds": [], "policy": pol, "horizon": 40.0}}, {"total": 0}, cap))
            if p["meta"]["n"] == 2:
                units.append(({"program": p, "cfg": {"env_kinds": [], "timer_choices": True, "horizon": 40.0}},
                              {"thread": 1, "timer": 1, "total": 1}, cap))
    if quick:
        for p in programs(tier)[::9]:
            for pol in ("low", "high"):
                units.append(({"program": p, "cfg": {"env_kinds": [], "policy": pol, "horizon": 40.0}}, {"total": 0}, cap))
    return units


simcheck.install(globals(), "C09", [judge], space,
                 "parallel with 0..3 branches (every succeed/fail assignment x completion orders via distinct virtual "
                 "finish times) and homogeneous maps of 0..3 items x 16 completion configs (none, empty, first_successful, "
                 "all_completed, all_successful, min_successful 1/2, tolerated count 0/1, tolerated percentage 0/50, "
                 "count+percentage with either one binding, three other combinations) x max_concurrency {None,1,2}; blocked and parked branches next to deciders; 18 programs whose "
                 "branches finish at the same instant under every schedule with <=1 (quick) / <=2 (thorough) preemption, six (quick) / "
                 "all (thorough) of them also with one preemption at any line of concurrency/executor.py; each "
                 "program continues with a wait so that a second invocation replays the result; thorough adds policies "
                 "low/high on every program and +1 scheduling deviation on 2-branch programs")
