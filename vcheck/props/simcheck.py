"""Shared scaffolding for whole-execution checks built on durable-sim."""
from __future__ import annotations

from vcheck import common
from vcheck.sim import monitors, programs, run as simrun
from vcheck.sim.driver import Driver

_BASE = {}


def exec_with(judges, unit, prefix, expect=None, need_base=False):
    prog, cfg = unit["program"], unit["cfg"]
    base = None
    if need_base:
        key = (prog.get("name"), repr(sorted((k, repr(v)) for k, v in cfg.items() if k in ("policy", "ext_payload"))))
        if key not in _BASE:
            c0 = dict(cfg)
            c0["env_kinds"] = []
            c0["timer_choices"] = False
            d0 = Driver(prog, c0, []).run()
            _BASE[key] = monitors._final(d0.final) if d0.final else None
            if len(_BASE) > 4000:
                _BASE.clear()
        base = _BASE[key]
    return simrun.exec_program(prog, cfg, prefix, judges, expect=expect, ctxdata=base)


def label(unit):
    c = unit["cfg"]
    return {"program": unit["program"].get("name"), "policy": c.get("policy", "rtb"),
            "env": c.get("env_kinds", []), "pages": c.get("page_modes", [0]),
            "faults": c.get("faults", [])}


PAGES = [0, 1, 2, 3, 4, 5]


def standard_space(tier, progs=None):
    """The C01/C02/C11 exploration space: (unit, budget, cap) triples."""
    quick = tier == "quick"
    units = []
    cap = 20_000 if quick else 400_000
    P = programs
    if progs is not None:
        tiers = [(progs, "full")]
    elif quick:
        one = [P.program((n,)) for n in P.FULL + P.NESTED]
        mid = ["S", "R", "W", "C", "K", "N", "H", "P", "M"]
        two = [P.program((a, b)) for a in mid for b in mid]
        small = ["S", "W", "C", "P"]
        three = [P.program((a, b, c)) for a in small for b in small for c in small]
        tiers = [(one, "full"), (two, "single"), (three, "crash")]
    else:
        full = P.corpus(2, 3, extra=P.NESTED)
        one = [p for p in full if "+" not in p["name"]]
        rest = [p for p in full if "+" in p["name"]]
        tiers = [(one, "deep"), (rest, "full")]
    for progs_, treat in tiers:
        for p in progs_:
            conc = P.is_concurrent(p)
            if treat == "crash":
                units.append(({"program": p, "cfg": {"env_kinds": ["crash"]}}, {"crash": 1, "total": 1}, cap))
                continue
            units.append(({"program": p, "cfg": {"env_kinds": ["crash", "page"], "page_modes": PAGES}},
                          {"crash": 1, "page": 1, "total": 1}, cap))
            if conc:
                units.append(({"program": p, "cfg": {"env_kinds": [], "timer_choices": True}},
                              {"thread": 1, "timer": 1, "total": 1}, cap))
            if treat == "single":
                continue
            for pol in ("low", "high"):
                units.append(({"program": p, "cfg": {"env_kinds": ["crash"], "policy": pol}},
                              {"crash": 1, "total": 1}, cap))
            if treat in ("full", "deep") and "+" not in p["name"]:
                units.append(({"program": p, "cfg": {"env_kinds": ["crash", "page"], "page_modes": PAGES}},
                              {"crash": 2, "page": 1, "total": 2}, cap))
                if conc:
                    units.append(({"program": p, "cfg": {"env_kinds": ["crash"]}},
                                  {"thread": 1, "crash": 1, "total": 2}, cap))
            if treat == "deep" and conc:
                units.append(({"program": p, "cfg": {"env_kinds": [], "timer_choices": True}},
                              {"thread": 2, "timer": 1, "total": 2}, cap))
    return units


def run_check(ctx, modname, units, bounds_text, assumptions=None):
    cov, viols, internal = common.explore_units(ctx, modname, units, label=label)
    cov["bounds"] = bounds_text
    cov["explanation"] = ("each trace is a complete multi-invocation execution of a DSL workflow through the production "
                          "entry point durable_execution(handler, boto3_client=<backend model>) under the controlled "
                          "scheduler; states = choice-tree nodes (scheduling + environment choices), "
                          "transitions = scheduling steps")
    progs = sorted({u[0]["program"].get("name") for u in units})
    cov["programs"] = len(progs)
    return {"coverage": cov, "violations": viols, "internal": internal,
            "assumptions": (assumptions or []) + [
                "backend reference model (vcheck/sim/backend.py) stands in for the service",
                "virtual primitives mirror the stdlib (selftest)",
                "operation positions recovered from operation names the harness assigns"]}


def install(g, pid, judges, space_fn, bounds, need_base=False, assumptions=None):
    """Define exec_one/run/replay in module namespace `g` for a durable-sim based check."""
    modname = f"vcheck.props.{pid.lower()}"

    def exec_one(unit, prefix, expect=None):
        return exec_with(judges, unit, prefix, expect, need_base=need_base)

    def run(ctx):
        return run_check(ctx, modname, space_fn(ctx.tier), bounds, assumptions)

    def replay(rep):
        r = rep["replay"]
        unit = {"program": r["program"], "cfg": r["cfg"]}
        res = exec_one(unit, r["prefix"], expect=r.get("options"))
        d = res.info["driver"]
        return {"violations": [{"sig": v["sig"], "msg": v["msg"]} for v in res.violations],
                "internal": res.internal, "summary": d.summary()}

    g["exec_one"] = exec_one
    g["run"] = run
    g["replay"] = replay
    g["MOD"] = modname
