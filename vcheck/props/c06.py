"""C06 - checkpoint failure is fail-stop: no progress, no hang, no success.
(a) component harness on ExecutionState with API call k failing; (b) whole handler through
the production entry point with the backend raising ClientErrors of every class at every
call position."""
from __future__ import annotations

from vcheck import common
from vcheck.props import batcher, simcheck
from vcheck.sim import monitors, programs as P
from vcheck.vsched import explore

MOD = "vcheck.props.c06"


# ----------------------------------------------------------------------------- (a)
def judge_failstop(cfg, ex, calls, events, failure):
    viol = []

    def V(clause, msg, **feat):
        f = "/".join(f"{k}={v}" for k, v in sorted(feat.items()))
        viol.append({"sig": f"C06/{clause}" + ("/" + f if f else ""), "msg": msg})

    if ex.end_reason != "main-returned":
        blocked = [(t["name"], t.get("where")) for t in (ex.end_detail or []) if t["state"] == "BLOCK" and t["name"].startswith("prod")]
        V("caller-never-woken", f"{ex.end_reason}: producers still blocked after the failure: {blocked}",
          where="+".join(sorted({str(w) for _, w in blocked})))
    for name, e in ex.errors:
        V("uncaught", f"uncaught {type(e).__name__} in {name}: {e}", thread=name.rstrip("0123456789"), exc=type(e).__name__)
    if failure["tick"] is None:
        return viol
    tf = failure["tick"]
    fail_n = [c["n"] for c in calls if c["failed"]][0]
    later = [c["n"] for c in calls if c["n"] > fail_n]
    if later:
        V("api-call-after-failure", f"API calls {later} were made after call {fail_n} failed")
    ok_ids = {uid for c in calls if not c["failed"] for uid in c["ids"]}
    inv = {}
    meta = {}
    for kind, pid, idx, tick, extra in events:
        if kind == "invoke":
            inv[(pid, idx)] = tick
            meta[(pid, idx)] = extra
    for kind, pid, idx, tick, extra in events:
        key = (pid, idx)
        if kind == "return":
            m = meta[key]
            if m["sync"]:
                if inv[key] > tf:
                    V("sync-call-succeeded-after-failure", f"synchronous call {key} was issued after the failure and returned normally")
                elif m["id"] is not None and m["id"] not in ok_ids:
                    V("sync-call-returned-without-delivery", f"synchronous call {key} returned although its update was never accepted")
        elif kind == "raise":
            if extra.get("type") != "BackgroundThreadError":
                V("wrong-error", f"call {key} raised {extra}", got=str(extra.get("type")))
            elif not extra.get("src_is_failure"):
                V("failure-not-carried", f"call {key} raised BackgroundThreadError without the original failure")
            elif tick < tf:
                V("error-before-failure", f"call {key} raised before any API call failed")
    return viol


def exec_component(cfg, prefix, expect=None):
    ex, calls, events, failure, internal = batcher.run_one(cfg, prefix, expect)
    viol = [] if internal else judge_failstop(cfg, ex, calls, events, failure)
    for v in viol:
        v["replay"] = {"cfg": cfg, "prefix": ex.choices(), "options": [list(o) for o, _ in ex.trace]}
        v["calls"] = calls
        v["events"] = [list(e) for e in events]
    return explore.RunResult(trace=ex.trace, steps=ex.steps, violations=viol,
                             outcome=batcher.outcome(calls, events), internal=internal, info={"end": ex.end_reason})


def exec_one(unit, prefix, expect=None):
    if "producers" in unit:
        return exec_component(unit, prefix, expect)
    return simcheck.exec_with([monitors.judge_c06], unit, prefix, expect)


COMP = [["ss"], ["as"], ["aas"], ["s", "s"], ["as", "s"], ["as", "as"], ["ss", "a"], ["Ls", "s"], ["e", "s"], ["s", "e"],
        # updates parked in the overflow queue (batch size limit) when the call fails
        ["L", "L"], ["L", "Ls"], ["aL", "L"], ["O", "s"], ["L", "L", "L"]]
SHAPES = ["S+S", "W+S", "H", "Sm", "Sm+S", "Smr", "Psmr", "P", "Pw", "M", "Mw", "K", "N", "C+S", "R", "Pc"]
FAULTS = ["5xx", "429", "4xx", "token", "4xx-tokenmsg", "403"]


def label(unit):
    if "producers" in unit:
        return {"component": unit["producers"], "fail_at": unit.get("fail_at"), "fail_cls": unit.get("fail_cls"),
                "after": unit.get("after"), "policy": unit.get("policy", "rtb"), "line": unit.get("line", False)}
    return simcheck.label(unit)


def space(tier):
    quick = tier == "quick"
    cap = 40_000 if quick else 2_000_000
    units = []
    for prods in COMP:
        ncalls = sum(len(p) for p in prods)
        for k in (1, 2, 3):
            if k > ncalls:
                continue
            for cls in ("runtime", "invocation", "execution") if k == 1 else ("runtime",):
                units.append(({"producers": prods, "fail_at": k, "fail_cls": cls, "after": "sa", "horizon": 30.0},
                              {"thread": 2, "timer": 1, "total": 2} if quick else {"thread": 3, "timer": 1, "total": 3}, cap))
        for pol in ("low", "high"):
            units.append(({"producers": prods, "fail_at": 1, "fail_cls": "runtime", "after": "s", "policy": pol, "horizon": 30.0},
                          {"thread": 1, "timer": 1, "total": 1}, cap))
    # the failing call next to <=2 stalls of 250 ms at signalling / waiting operations, plus one preemption
    for prods in COMP:
        units.append(({"producers": prods, "fail_at": 1, "fail_cls": "runtime", "after": "s", "horizon": 30.0, "timer": False,
                       "stall": [0.25], "stall_ops": ["signal", "wait"]}, {"stall": 2, "thread": 1, "total": 3}, cap))
    if not quick:
        for prods in (["s"], ["as"], ["s", "s"]):
            units.append(({"producers": prods, "fail_at": 1, "fail_cls": "runtime", "after": "s", "line": True,
                           "timer": False, "horizon": 30.0}, {"thread": 2}, cap))
    else:
        for prods in (["s"], ["as"], ["s", "s"]):
            units.append(({"producers": prods, "fail_at": 1, "fail_cls": "runtime", "after": "s", "line": True,
                           "timer": False, "horizon": 30.0}, {"thread": 1}, cap))
    # whole handler, one preemption at any line of threading.py / state.py around the failing call
    import aws_durable_execution_sdk_python.state as _stm
    import aws_durable_execution_sdk_python.threading as _thm
    for sh in ("S", "Sm", "W"):
        p = P.program((sh,))
        units.append(({"program": p, "cfg": {"env_kinds": ["fault"], "faults": ["5xx", "4xx"],
                                             "line_files": [_stm.__file__, _thm.__file__]}},
                      {"fault": 1, "thread": 1, "total": 2}, cap))
    for sh in SHAPES:
        p = P.program(tuple(sh.split("+")))
        conc = P.is_concurrent(p)
        units.append(({"program": p, "cfg": {"env_kinds": ["fault"], "faults": FAULTS}}, {"fault": 1, "total": 1}, cap))
        for pol in ("low", "high"):
            units.append(({"program": p, "cfg": {"env_kinds": ["fault"], "faults": ["5xx", "4xx"], "policy": pol}},
                          {"fault": 1, "total": 1}, cap))
        if not (conc and quick):
            units.append(({"program": p, "cfg": {"env_kinds": ["fault"], "faults": ["5xx", "4xx"], "timer_choices": True}},
                          {"fault": 1, "thread": 1, "timer": 1, "total": 2}, cap))
    # paginated checkpoint responses (and paginated histories) whose follow-up GetDurableExecutionState call fails
    for sh in ("S+S", "H", "P", "W+S", "Sm"):
        p = P.program(tuple(sh.split("+")))
        units.append(({"program": p, "cfg": {"env_kinds": ["fault", "page"], "faults": [], "state_faults": ["5xx", "4xx"],
                                             "page_modes": [4, 1]}}, {"fault": 1, "page": 1, "total": 2}, cap))
    # the refresh call of a timer-driven resubmission fails while the sibling parks d seconds after start (grid around the
    # wake-up time, 300 ms API calls)
    from vcheck.props import c07 as _c07
    for kind, p in _c07.programs(tier):
        if kind == "grid" and ".cb" in p["name"]:
            units.append(({"program": p, "cfg": {"env_kinds": ["fault"], "faults": ["5xx", "4xx"], "api_latency": 0.3}},
                          {"fault": 1, "total": 1}, cap))
    # a synchronous record that alone exceeds the 750 KB batch limit waits in the overflow queue while the call fails
    for nm, seq in (("S[800KB]+S", [{"k": "step", "fn": {"bytes": 800_000}}, {"k": "step", "fn": {"ret": 2}}]),
                    ("par[S[400KB]|S[400KB]]", [{"k": "par", "cfg": {"cc": "all_completed"}, "branches": [
                        [{"k": "step", "fn": {"bytes": 400_000}}], [{"k": "step", "fn": {"bytes": 400_000}}]]}])):
        units.append(({"program": {"name": nm, "seq": seq}, "cfg": {"env_kinds": ["fault"], "faults": ["5xx", "4xx"]}},
                      {"fault": 1, "total": 1}, cap))
    big = {"name": "S+bigresult", "seq": P.U("S"), "ret": {"pad": 6 * 1024 * 1024}}
    units.append(({"program": big, "cfg": {"env_kinds": ["fault"], "faults": FAULTS}}, {"fault": 1, "total": 1}, cap))
    # callers queued behind the failing in-flight call (50 ms API latency, step bodies of 120 ms)
    for names in (("Sd",), ("Hd",), ("Sd", "S")):
        p = P.program(names)
        for pol in ("rtb", "low", "high"):
            units.append(({"program": p, "cfg": {"env_kinds": ["fault"], "faults": ["5xx", "4xx"], "api_latency": 0.05, "policy": pol}},
                          {"fault": 1, "thread": 1, "total": 2 if pol == "rtb" else 1}, cap))
    return units


def run(ctx):
    units = space(ctx.tier)
    cov, viols, internal = common.explore_units(ctx, MOD, units, label=label)
    cov["bounds"] = ("(a) 10 producer configurations x failing API call k in 1..3 x error class, producers keep issuing "
                     "calls after the failure, all schedules <=2 (quick) / <=3 (thorough) deviations, line-level preemption in state.py and threading.py (also on three whole-handler programs); "
                     "(b) 14 program shapes (sequential, child, at-most-once, parallel/map with running, parked and "
                     "timer-resubmitted branches, callbacks, large result) x failing call position = every call x "
                     "{5xx, 429, 4xx, invalid token} x policies rtb/low/high, +1 scheduling/timer deviation")
    cov["explanation"] = "each trace is an execution of the real pipeline / the real handler wrapper with a failing service call"
    return {"coverage": cov, "violations": viols, "internal": internal,
            "assumptions": ["error classification table: 4xx (not 429, not invalid token) => raise for retry; 5xx/429/invalid token => FAILED",
                            "backend reference model; virtual primitives (selftest)"]}


def replay(rep):
    r = rep["replay"]
    if "program" in r:
        unit = {"program": r["program"], "cfg": r["cfg"]}
    else:
        unit = r["cfg"]
    res = exec_one(unit, r["prefix"], expect=r.get("options"))
    out = {"violations": [{"sig": v["sig"], "msg": v["msg"]} for v in res.violations], "internal": res.internal}
    d = res.info.get("driver")
    if d is not None:
        out["summary"] = d.summary()
    return out
