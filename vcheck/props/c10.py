"""C10 - nothing is recorded under a context after that context has completed.
Space: early-completion configurations x what the surviving branch is doing when the parent
completes (inside a user function / between operations / about to start a new operation or
a nested context), produced by virtual durations and by all schedules within the budget."""
from __future__ import annotations

from vcheck.props import simcheck
from vcheck.sim import monitors

FAST = [{"k": "step", "fn": {"ret": "fast"}}]
FAIL = [{"k": "step", "fn": {"raise": "Boom", "msg": "x"}, "retry": "none"}]
SURVIVORS = {
    "in-fn": [{"k": "step", "fn": {"sleep": 3, "then": {"ret": "late"}}}],
    "between": [{"k": "step", "fn": {"sleep": 3, "then": {"ret": "l1"}}}, {"k": "step", "fn": {"ret": "l2"}}],
    "new-op": [{"k": "sleep", "d": 3}, {"k": "step", "fn": {"ret": "l3"}}],
    "new-most": [{"k": "sleep", "d": 3}, {"k": "step", "fn": {"ret": "l3"}, "sem": "most"}],
    "new-child": [{"k": "sleep", "d": 3}, {"k": "child", "body": [{"k": "step", "fn": {"ret": "l4"}}]}],
    "new-map": [{"k": "sleep", "d": 3}, {"k": "map", "items": [1], "body": [{"k": "step", "fn": {"ret": "l5"}}]}],
    "new-wait": [{"k": "sleep", "d": 3}, {"k": "wait", "s": 1}],
    "new-cb": [{"k": "sleep", "d": 3}, {"k": "cb"}],
    "nested-in-fn": [{"k": "child", "body": [{"k": "step", "fn": {"sleep": 3, "then": {"ret": "l6"}}}, {"k": "step", "fn": {"ret": "l7"}}]}],
    "two-steps-fast": [{"k": "step", "fn": {"ret": "a"}}, {"k": "step", "fn": {"ret": "b"}}, {"k": "step", "fn": {"ret": "c"}}],
}
EARLY = {
    "first": ({"cc": "first"}, FAST),
    "min1": ({"min": 1}, FAST),
    "tol0": ({"tol_n": 0}, FAIL),
    "failfast": ({"cc": "empty"}, FAIL),
}


def programs(tier):
    out = []
    for en, (cfg, winner) in EARLY.items():
        for sn, surv in SURVIVORS.items():
            out.append({"name": f"par[{en}:{sn}]", "seq": [{"k": "par", "cfg": cfg, "branches": [winner, surv]},
                                                            {"k": "sleep", "d": 6}, {"k": "step", "fn": {"ret": "end"}}]})
            out.append({"name": f"map[{en}:{sn}]", "seq": [
                {"k": "try", "catch": ["CallableRuntimeError"], "body":
                 {"k": "child", "body": [{"k": "par", "cfg": cfg, "branches": [surv, winner]}, {"k": "sleep", "d": 6}]}}]})
    # the completing context is a branch / a child context inside a branch (nesting 2)
    for sn in ("in-fn", "new-op", "new-child"):
        out.append({"name": f"par[par[first:{sn}],slow]", "seq": [
            {"k": "par", "cfg": {"cc": "all_completed"}, "branches": [
                [{"k": "par", "cfg": {"cc": "first"}, "branches": [FAST, SURVIVORS[sn]]}, {"k": "sleep", "d": 6}],
                [{"k": "step", "fn": {"sleep": 8, "then": {"ret": "other"}}}]]}]})
    # the completed operation's result is oversized (recorded as a summary, its branches are traversed again on replay)
    # and a surviving branch is no longer blocked when the next invocation replays it
    surv = [{"k": "wait", "s": 1}, {"k": "step", "fn": {"ret": "late"}}]
    out.append({"name": "par[first:oversized-result,survivor-unblocked-on-replay]", "seq": [
        {"k": "par", "cfg": {"cc": "first"}, "branches": [[{"k": "step", "fn": {"bytes": 300_000}}], surv]},
        {"k": "wait", "s": 3}, {"k": "step", "fn": {"ret": "end"}}]})
    out.append({"name": "map[min1:oversized-result,survivors-unblocked-on-replay]", "seq": [
        {"k": "map", "items": [0, 1, 2], "cfg": {"min": 1}, "body": [
            {"k": "step", "fn": {"item_sleep": [0, 1, 1], "then": {"bytes": 300_000}}}, {"k": "step", "fn": {"ret": "next"}}]},
        {"k": "wait", "s": 3}, {"k": "step", "fn": {"ret": "end"}}]})
    return out


def space(tier):
    quick = tier == "quick"
    cap = 30_000 if quick else 600_000
    units = []
    import aws_durable_execution_sdk_python.concurrency.executor as _exm
    import aws_durable_execution_sdk_python.state as _stm
    lf = [_stm.__file__, _exm.__file__]
    line_names = ("par[first:in-fn]", "par[first:between]", "par[first:new-op]", "par[first:new-child]",
                  "par[first:two-steps-fast]", "map[tol0:two-steps-fast]", "par[tol0:new-op]", "par[min1:between]")
    for p in programs(tier):
        deep = not quick and p["name"] in line_names    # two deviations on the eight core shapes only (thorough)
        if p["name"] in line_names or not quick and p["name"].startswith("par["):
            # one preemption at any line of state.py / executor.py (check-then-act windows outside locks)
            units.append(({"program": p, "cfg": {"env_kinds": [], "line_files": lf}}, {"thread": 1, "total": 1}, cap))
        units.append(({"program": p, "cfg": {"env_kinds": [], "timer_choices": True}},
                      {"thread": 2, "timer": 1, "total": 2} if deep else {"thread": 1, "timer": 1, "total": 1}, cap))
        for pol in ("low", "high"):
            units.append(({"program": p, "cfg": {"env_kinds": [], "policy": pol}},
                          {"total": 0} if quick else {"thread": 1, "total": 1}, cap))
        # histories left by a crash: the completing context and its branches are partly recorded already
        units.append(({"program": p, "cfg": {"env_kinds": ["crash"]}},
                      {"crash": 1, "thread": 1, "total": 2 if deep else 1}, cap))
        if not quick or "par[first:" in p["name"] or "par[par[" in p["name"]:
            for pol in ("low", "high"):
                units.append(({"program": p, "cfg": {"env_kinds": ["crash"], "policy": pol}}, {"crash": 1, "total": 1}, cap))
    # survivors' large terminal records (3 x 260 KB > the 750 KB batch limit) queued while the winner's record is in
    # flight: the batch/overflow boundary falls among the survivors' records and the parent's completion record
    for lat in (0.3,):
        for dms in (150, 250, 350, 450, 550, 650, 750, 850):
            big = lambda: [{"k": "step", "fn": {"sleep": dms / 1000.0, "then": {"bytes": 260_000}}},  # noqa: E731
                           {"k": "step", "fn": {"ret": "next"}}]
            p = {"name": f"par[first:3-big-survivors={dms}ms;api={int(lat * 1000)}ms]", "seq": [
                {"k": "par", "cfg": {"cc": "first"}, "branches": [[{"k": "step", "fn": {"ret": "A"}}], big(), big(), big()]},
                {"k": "sleep", "d": 3}, {"k": "step", "fn": {"ret": "end"}}]}
            units.append(({"program": p, "cfg": {"env_kinds": [], "api_latency": lat}}, {"total": 0}, cap))
    return units


simcheck.install(globals(), "C10", [monitors.judge_c10], space,
                 "early completion by first_successful / min_successful=1 / tolerated_failure_count=0 / fail-fast "
                 "x 10 survivor positions (inside a user function, between two operations, about to start a new step "
                 "(both semantics) / child context / map / wait / callback, inside a nested child, racing) for parallel at "
                 "top level and inside a child context, plus nesting 2 (the completing context is an inner parallel "
                 "inside a branch); every single crash point (replays in which the completing context and its branches are "
                 "already partly recorded); one preemption at any line of state.py/executor.py on 8 (quick) / all parallel (thorough) "
                 "programs; 8 programs whose three surviving branches hand over 260 KB records at every 100 ms offset around the "
                 "winner's 300 ms API calls (batch size limit reached next to the parent's completion record); all schedules with <=1 deviation (thorough: <=2 on the eight core shapes, +1 under policies low/high), policies rtb/low/high")
