"""C08 - operation identity is deterministic, schedule-independent and collision-free.
The relation (structural path -> Id, ParentId) is collected from every update of every
explored execution of every program and must be a function, injective, with ParentId naming
the enclosing context."""
from __future__ import annotations

from vcheck import common
from vcheck.props import simcheck
from vcheck.sim import programs as P
from vcheck.sim.backend import fmt_path, parse_path

MOD = "vcheck.props.c08"

S = lambda v: [{"k": "step", "fn": {"ret": v}}]  # noqa: E731
SLOW = lambda d, v: [{"k": "step", "fn": {"sleep": d, "then": {"ret": v}}}]  # noqa: E731


def programs():
    out = []
    ac = {"cc": "all_completed"}
    out.append({"name": "S+S+S", "seq": S(1) + S(2) + S(3)})
    out.append({"name": "child[S,child[S,S]]+S", "seq": [{"k": "child", "body": S(1) + [{"k": "child", "body": S(2) + S(3)}]}] + S(4)})
    out.append({"name": "par3[S|SS|W.S]", "seq": [{"k": "par", "cfg": ac, "branches": [S("a"), S("b") + S("c"), [{"k": "wait", "s": 2}] + S("d")]}]})
    out.append({"name": "par[slow|fast]+S", "seq": [{"k": "par", "cfg": ac, "branches": [SLOW(3, "s") + S("s2"), S("f") + S("f2")]}] + S("t")})
    out.append({"name": "map3[S,S]", "seq": [{"k": "map", "items": [1, 2, 3], "cfg": ac, "body": S("m1") + S("m2")}]})
    out.append({"name": "map2+map2", "seq": [{"k": "map", "items": [1, 2], "cfg": ac, "body": S("x")},
                                              {"k": "map", "items": [1, 2], "cfg": ac, "body": SLOW(2, "y")}]})
    out.append({"name": "map[par[child[S]]]", "seq": [{"k": "map", "items": [1, 2], "cfg": ac, "body": [
        {"k": "par", "cfg": ac, "branches": [[{"k": "child", "body": S("deep")}], S("side")]}]}]})
    out.append({"name": "par[wfcb|cb.S]", "seq": [{"k": "par", "cfg": ac, "branches": [
        [{"k": "wfcb"}], [{"k": "cb", "between": S("mid")}]]}]})
    out.append({"name": "child[par[S|S]]+child[par[S|S]]", "seq": [
        {"k": "child", "body": [{"k": "par", "cfg": ac, "branches": [S(1), SLOW(2, 2)]}]},
        {"k": "child", "body": [{"k": "par", "cfg": ac, "branches": [SLOW(2, 3), S(4)]}]}]})
    out.append({"name": "par3-maxc2", "seq": [{"k": "par", "cfg": {"cc": "all_completed", "maxc": 2},
                                              "branches": [SLOW(2, "a") + S("a2"), S("b") + S("b2"), S("c") + SLOW(1, "c2")]}]})
    out.append({"name": "par[S.W.S|slow]", "seq": P.U("Psw") + S("t")})
    out.append({"name": "par[S.R|slow]", "seq": P.U("Prs")})
    out.append({"name": "map-in-par[S.W.S|slow]", "seq": [{"k": "par", "cfg": ac, "branches": [
        [{"k": "map", "items": [1, 2], "cfg": ac, "body": S("m")}, {"k": "wait", "s": 1}, {"k": "step", "fn": {"ret": "after"}}],
        SLOW(4, "slow")]}]})
    out.append({"name": "shared-context[A|B]", "shared": True, "seq": [{"k": "shared_par", "labels": ["A", "B"]}]})
    out.append({"name": "shared-context[A|B|C]", "shared": True, "seq": [{"k": "shared_par", "labels": ["A", "B", "C"]}]})
    out.append({"name": "wfc+invoke+W+S", "seq": P.U("N") + P.U("I") + P.U("W") + S(9)})
    # every operation kind in every kind of enclosing context (ids and parent links per kind)
    kinds = lambda: (P.U("N") + P.U("I") + P.U("W") + P.U("K") + P.U("C") + P.U("R") + S("s")  # noqa: E731
                     + [{"k": "child", "body": P.U("N") + S("inner")}])
    out.append({"name": "child[every-kind]", "seq": [{"k": "child", "body": kinds()}]})
    out.append({"name": "par[every-kind|S]", "seq": [{"k": "par", "cfg": ac, "branches": [kinds(), S("side")]}]})
    out.append({"name": "map2[wfc.W.S]", "seq": [{"k": "map", "items": [1, 2], "cfg": ac, "body": P.U("N") + P.U("W") + S("m")}]})
    # nested contexts whose result exceeds the checkpoint limit (summary path of the completion record)
    out.append({"name": "child[child-oversized]+S", "seq": [{"k": "child", "body": [
        {"k": "child", "body": S("in"), "big": 270_000}, {"k": "step", "fn": {"ret": "after-big"}}]}] + S("t")})
    out.append({"name": "child[map-oversized]", "seq": [{"k": "child", "body": [
        {"k": "map", "items": [1, 2, 3], "cfg": ac, "body": [{"k": "step", "fn": {"bytes": 100_000}}]}]}]})
    out.append({"name": "par[child-oversized|S]", "seq": [{"k": "par", "cfg": ac, "branches": [
        [{"k": "child", "body": S("in"), "big": 270_000}], S("side")]}]})
    # maps whose inputs contain equal elements (positions are positions, not values)
    out.append({"name": "map3[equal-items 3,5,3]", "seq": [{"k": "map", "items": [3, 5, 3], "cfg": ac, "body": S("m1") + S("m2")}]})
    out.append({"name": "map4[equal-items 1,True,1.0,1]", "seq": [{"k": "map", "items": [1, True, 1.0, 1], "cfg": ac, "body": S("m")}]})
    out.append({"name": "par[R|W.S]", "seq": [{"k": "par", "cfg": ac, "branches": [P.U("R"), [{"k": "wait", "s": 1}] + S("z")]}]})
    out.append({"name": "first[fast|slow.S]+S", "seq": [{"k": "par", "cfg": {"cc": "first"}, "branches": [S("w"), SLOW(2, "l") + S("l2")]}] + S("after")})
    return out


def idmap_of(d):
    """Collect (path -> id), parent links, and violations inside one execution."""
    viol = []

    def V(clause, msg, **feat):
        f = "/".join(f"{k}={v}" for k, v in sorted(feat.items()))
        viol.append({"sig": f"C08/{clause}" + ("/" + f if f else ""), "msg": msg})

    path_id = {}
    id_path = {}
    context_ids = set()
    ups = [r["u"] for r in d.backend.log if not r.get("external") and r["u"]["Type"] != "EXECUTION"]
    for u in ups:
        if u["Type"] == "CONTEXT":
            context_ids.add(u["Id"])
    for u in ups:
        name = u.get("Name") or ""
        if name.startswith("p:") and " " not in name:
            p = parse_path(name[2:])
            i = u["Id"]
            if p in path_id and path_id[p] != i:
                V("position-has-two-ids", f"position {fmt_path(p)} was recorded under ids {path_id[p][:12]} and {i[:12]} in one execution")
            if i in id_path and id_path[i] != p:
                V("two-positions-share-id", f"positions {fmt_path(id_path[i])} and {fmt_path(p)} share id {i[:12]}")
            path_id.setdefault(p, i)
            id_path.setdefault(i, p)
    # learn the ids of SDK-named contexts (branches) from their children's parent links
    for u in ups:
        name = u.get("Name") or ""
        par = u.get("ParentId")
        if name.startswith("p:") and " " not in name:
            p = parse_path(name[2:])
            if len(p) == 1:
                if par:
                    V("root-operation-has-parent", f"top-level operation {fmt_path(p)} reports ParentId {par[:12]}")
                continue
            if not par:
                V("nested-operation-without-parent", f"operation {fmt_path(p)} reports no ParentId")
                continue
            pp = p[:-1]
            if par in id_path and id_path[par] != pp:
                V("parent-link-wrong", f"operation {fmt_path(p)} reports as parent the id of {fmt_path(id_path[par])}, "
                  f"not of its enclosing context {fmt_path(pp)}")
            if pp in path_id and path_id[pp] != par:
                V("parent-link-wrong", f"operation {fmt_path(p)} reports parent {par[:12]} but its enclosing context "
                  f"{fmt_path(pp)} is recorded as {path_id[pp][:12]}")
            path_id.setdefault(pp, par)
            id_path.setdefault(par, pp)
    for u in ups:
        par = u.get("ParentId")
        if par and par not in context_ids:
            V("parent-link-names-no-context", f"{u['Type']} {u['Action']} ({u.get('Name')}) reports ParentId {par[:12]} "
              f"which is not the id of any context operation")
        i = u["Id"]
        if i in id_path and len(id_path[i]) > 1:
            pp = id_path[i][:-1]
            if pp in path_id and par and path_id[pp] != par:
                V("parent-link-wrong", f"{u.get('Name')} at {fmt_path(id_path[i])} reports parent {par[:12]}, enclosing "
                  f"context {fmt_path(pp)} is {path_id[pp][:12]}")
    # index chains: a branch "bN" and the N-th call of a child context are both "index N under
    # that context" (a context is either a map/parallel or a plain child, never both)
    # (operations issued by racing threads on one shared context get their index in arrival order:
    #  unique within an execution, but not comparable across executions)
    return {fmt_path(tuple(int(x[1:]) if isinstance(x, str) and x.startswith("b") else x for x in p)): i
            for p, i in path_id.items() if not str(p[0]).startswith("shared")}, viol


def _fanouts(seq, base):
    """(path, number of branches/items) of every map/parallel in a program (same numbering as the interpreter)."""
    out = []
    counter = [0]

    def walk_op(op, base):
        k = op["k"]
        if k in ("log", "sleep", "raise"):
            return
        if k == "try":
            walk_op(op["body"], base)
            return
        counter[0] += 1
        path = base + (counter[0],)
        if k == "cb":
            for sub in op.get("between", []):
                walk_op(sub, base)
        elif k == "child":
            out.extend(_fanouts(op["body"], path))
        elif k == "par":
            out.append((path, len(op["branches"]), op.get("cfg") or {}))
            for i, b in enumerate(op["branches"]):
                out.extend(_fanouts(b, path + (f"b{i}",)))
        elif k == "map":
            out.append((path, len(op["items"]), op.get("cfg") or {}))
            for i in range(len(op["items"])):
                out.extend(_fanouts(op["body"], path + (f"b{i}",)))
    for op in seq:
        walk_op(op, base)
    return out


def judge(d, _=None):
    m, viol = idmap_of(d)
    # every input of a map / branch of a parallel that runs to completion has its own position (and so its own id)
    if d.final and d.final.get("status") == "SUCCEEDED" and not d.program.get("shared"):
        seen = {r["path"] for r in d.backend.log if r.get("path") and not r.get("external")}
        ids = {}
        for r in d.backend.log:
            if r.get("path") and not r.get("external"):
                ids.setdefault(r["path"], set()).add(r["u"]["Id"])
        for path, n, cfg in _fanouts(d.program["seq"], ()):
            if cfg.get("cc") != "all_completed":
                continue
            enclosing_ran = len(path) == 1 or path[:-1] in seen
            if not enclosing_ran or path not in seen:
                continue
            have = sorted({p[len(path)] for p in seen if len(p) > len(path) and p[:len(path)] == path and str(p[len(path)]).startswith("b")})
            want = [f"b{i}" for i in range(n)]
            if sorted(have) != sorted(want):
                viol.append({"sig": "C08/inputs-without-a-position-of-their-own",
                             "msg": f"{d.program['name']}: {fmt_path(path)} has {n} inputs but operations were recorded for "
                                    f"positions {have} only (two inputs share a position and therefore an id)"})
    d.c08_map = m
    return viol


def exec_one(unit, prefix, expect=None):
    r = simcheck.exec_with([judge], unit, prefix, expect)
    d = r.info.get("driver")
    r.info["idmap"] = getattr(d, "c08_map", {}) if d is not None else {}
    return r


def merge(acc, r, cfg):
    """Across executions (schedules, crashes, programs): same position => same id; different
    positions => different ids."""
    viol = []
    rev = acc.setdefault("__rev__", {})
    for p, i in r.info.get("idmap", {}).items():
        if p in acc and acc[p] != i:
            viol.append({"sig": "C08/id-depends-on-execution",
                         "msg": f"position {p} was recorded as {acc[p][:12]} in one execution and as {i[:12]} in another "
                                f"(program {cfg['program'].get('name')})",
                         "replay": {"program": cfg["program"], "cfg": cfg["cfg"], "prefix": [c for _, c in r.trace],
                                    "options": [list(o) for o, _ in r.trace]}})
        acc.setdefault(p, i)
        if i in rev and rev[i] != p:
            viol.append({"sig": "C08/two-positions-share-id",
                         "msg": f"positions {rev[i]} and {p} share id {i[:12]}",
                         "replay": {"program": cfg["program"], "cfg": cfg["cfg"], "prefix": [c for _, c in r.trace],
                                    "options": [list(o) for o, _ in r.trace]}})
        rev.setdefault(i, p)
    return viol


def space(tier):
    quick = tier == "quick"
    cap = 30_000 if quick else 600_000
    units = []
    import aws_durable_execution_sdk_python.threading as _thm
    for p in programs():
        base = {"allow_unmapped": True}
        if p.get("shared"):
            # ids are handed out by the ordered counter: one preemption at any line of threading.py
            units.append(({"program": p, "cfg": dict(base, env_kinds=[], line_files=[_thm.__file__])},
                          {"thread": 1, "total": 1} if quick else {"thread": 2, "total": 2}, cap))
            continue
        units.append(({"program": p, "cfg": dict(base, env_kinds=["crash"])}, {"crash": 1, "total": 1}, cap))
        long_prog = any(t in p["name"] for t in ("every-kind", "oversized", "map2[wfc"))
        units.append(({"program": p, "cfg": dict(base, env_kinds=[], timer_choices=True)},
                      {"thread": 1, "timer": 1, "total": 1} if (quick or long_prog) else {"thread": 2, "timer": 1, "total": 2}, cap))
        for pol in ("low", "high", "rr"):
            units.append(({"program": p, "cfg": dict(base, env_kinds=["crash"] if not quick else [], policy=pol)},
                          {"crash": 1, "total": 1}, cap))
    return units


def run(ctx):
    accs = []
    units = space(ctx.tier)
    cov, viols, internal = common.explore_units(ctx, MOD, units, label=simcheck.label, accs=accs)
    # across units (programs, policies)
    glob = {}
    rev = {}
    for a in accs:
        for p, i in a.items():
            if p == "__rev__":
                continue
            if p in glob and glob[p] != i:
                viols.append({"sig": "C08/id-depends-on-execution",
                              "msg": f"position {p} has id {glob[p][:12]} in one program/policy and {i[:12]} in another",
                              "replay": {"cross_unit": True}})
            glob.setdefault(p, i)
            if i in rev and rev[i] != p:
                viols.append({"sig": "C08/two-positions-share-id", "msg": f"positions {rev[i]} and {p} share id {i[:12]}",
                              "replay": {"cross_unit": True}})
            rev.setdefault(i, p)
    cov["distinct_positions"] = len(glob)
    cov["bounds"] = ("24 program shapes (two maps over inputs with equal elements; three with nested oversized contexts; three placing every operation kind inside a child context, a parallel branch and a map item) + 2 in which sibling branches issue operations on the enclosing context (shared call counter, line-level preemption in threading.py) (nesting <=3, <=3 branches/items, sibling maps, child-in-branch-in-map, callbacks inside "
                     "branches, max_concurrency, early completion); per shape every single crash point, every schedule with "
                     "<=1 (quick) / <=2 (thorough, on the 16 short shapes) deviations, policies rtb/low/high/rr; the relation position->id is "
                     "checked within each execution, across all executions of a unit and across all programs")
    cov["explanation"] = "each trace is a complete execution through the production entry point; ids are read from the updates the backend model receives"
    return {"coverage": cov, "violations": viols, "internal": internal,
            "assumptions": ["positions are carried in operation names assigned by the harness; ids of SDK-named contexts (branches) are learned from their children's parent links"]}


def replay(rep):
    r = rep["replay"]
    if r.get("cross_unit"):
        return {"violations": [], "note": "cross-unit comparison; re-run ./check C08"}
    unit = {"program": r["program"], "cfg": r["cfg"]}
    res = exec_one(unit, r["prefix"], expect=r.get("options"))
    return {"violations": [{"sig": v["sig"], "msg": v["msg"]} for v in res.violations], "internal": res.internal,
            "idmap": res.info.get("idmap")}
