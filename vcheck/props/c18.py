"""C18 - every invocation ends with exactly one well-formed, correctly classified outcome.
Space: handler behaviours (return values, exception classes, three placements), suspension
from every parking operation, checkpoint/get-state faults of every class at every call
position, malformed invocation payloads."""
from __future__ import annotations

import json

from vcheck import common
from vcheck.props import simcheck
from vcheck.sim import programs as P
from vcheck.sim.backend import ARN, Backend
from vcheck.sim.monitors import V, hang_signature
from vcheck.vsched import core, explore

MOD = "vcheck.props.c18"
T = P.T

RETURNS = {
    "none": {"val": None}, "dict": {"val": {"a": 1, "b": [1, 2, {"c": None}]}}, "str": {"val": "text"},
    "list": {"val": [1, "a", None, True]}, "int": {"val": 0}, "nan": {"val": {"$t": "float", "v": "nan"}},
    "tuple": {"val": T(1, 2)}, "object": {"obj": True}, "bytes": {"val": {"$t": "bytes", "v": "00"}},
}
RAISES = ["ValueError", "KeyError", "Boom", "DataErr", "DataErrSet", "ExecutionError", "CallbackError", "ValidationError", "InvocationError",
          "StepInterruptedError", "CallableRuntimeError", "SerDesError", "InvalidStateError", "OrderedLockError",
          "NonDeterministicExecutionError"]
INVOCATION_FAMILY = {"InvocationError", "StepInterruptedError", "BotoClientError", "GetExecutionStateError", "CheckpointError"}
USER_FAMILY = {"ValueError", "KeyError", "Boom", "Bam", "TypeError", "RuntimeError", "DataErr", "DataErrSet"}


def programs():
    out = []
    S = {"k": "step", "fn": {"ret": 1}}
    for name, ret in RETURNS.items():
        out.append({"name": f"return[{name}]", "meta": {"kind": "return", "ret": name}, "seq": [S], "ret": ret})
    for cls in RAISES:
        out.append({"name": f"raise[{cls}]@top", "meta": {"kind": "raise", "cls": cls, "place": "top"},
                    "seq": [S, {"k": "raise", "cls": cls, "msg": "m1"}]})
        out.append({"name": f"raise[{cls}]@child", "meta": {"kind": "raise", "cls": cls, "place": "child"},
                    "seq": [{"k": "child", "body": [S, {"k": "raise", "cls": cls, "msg": "m2"}]}]})
        out.append({"name": f"raise[{cls}]@branch", "meta": {"kind": "raise", "cls": cls, "place": "branch"},
                    "seq": [{"k": "par", "branches": [[{"k": "raise", "cls": cls, "msg": "m3"}], [S]]}]})
        out.append({"name": f"raise[{cls}]@step", "meta": {"kind": "raise", "cls": cls, "place": "step"},
                    "seq": [{"k": "step", "fn": {"raise": cls, "msg": "m4"}, "retry": "none"}]})
    # error messages outside ASCII, including a string that cannot be encoded as UTF-8 (a lone surrogate, as
    # produced by os.fsdecode / surrogateescape): still an outcome, never a hang
    for tag, msg in (("non-ascii", "caf\u00e9 \u4e2d\u6587"), ("lone-surrogate", "bad \udce9 byte")):
        out.append({"name": f"raise[ValueError;msg={tag}]@top", "meta": {"kind": "raise", "cls": "ValueError", "place": "top"},
                    "seq": [S, {"k": "raise", "cls": "ValueError", "msg": msg}]})
        out.append({"name": f"raise[ValueError;msg={tag}]@child", "meta": {"kind": "raise", "cls": "ValueError", "place": "child"},
                    "seq": [{"k": "child", "body": [S, {"k": "raise", "cls": "ValueError", "msg": msg}]}]})
        out.append({"name": f"raise[Boom;msg={tag}]@step", "meta": {"kind": "raise", "cls": "Boom", "place": "step"},
                    "seq": [{"k": "step", "fn": {"raise": "Boom", "msg": msg}, "retry": "none"}]})
        out.append({"name": f"return[str;{tag}]", "meta": {"kind": "return", "ret": "str"}, "seq": [{"k": "step", "fn": {"ret": msg}}],
                    "ret": {"val": msg}})
    out.append({"name": "step-returns-object", "meta": {"kind": "raise", "cls": "ExecutionError", "place": "serdes"},
                "seq": [{"k": "step", "fn": {"obj": True}}]})
    out.append({"name": "wait-zero-seconds", "meta": {"kind": "raise", "cls": "ValidationError", "place": "top"},
                "seq": [S, {"k": "wait", "s": 0}]})
    out.append({"name": "failed-step-uncaught", "meta": {"kind": "raise", "cls": "CallableRuntimeError", "place": "top"},
                "seq": [{"k": "step", "fn": {"raise": "Boom", "msg": "m5"}, "retry": "none"}]})
    for u in ("W", "C", "I", "N", "K", "R", "Pc", "Mw"):
        out.append({"name": f"suspend[{u}]", "meta": {"kind": "suspend", "unit": u}, "seq": P.U(u)})
    return out


FAULT_PROGRAMS = ["S+S", "W+S", "H", "P", "Sm", "Mw"]
FAULTS = ["5xx", "429", "4xx", "token", "4xx-tokenmsg", "403", "badresp-status", "badresp-noid", "badresp-type", "badresp-none"]


def wellformed(out_v, o, inv, be_has_exec):
    """Shape rules for a returned value."""
    name = inv
    if not isinstance(o, dict):
        V(out_v, "C18", "outcome-not-a-dict", f"{name}: returned {type(o).__name__}: {o!r:.120}")
        return
    st = o.get("Status")
    extra = set(o) - {"Status", "Result", "Error"}
    if extra:
        V(out_v, "C18", "outcome-has-unknown-keys", f"{name}: keys {sorted(o)}")
    if st == "SUCCEEDED":
        if "Error" in o:
            V(out_v, "C18", "succeeded-with-error", f"{name}: {o!r:.200}")
        r = o.get("Result")
        if not isinstance(r, str):
            V(out_v, "C18", "succeeded-result-not-json-text", f"{name}: Result is {type(r).__name__}")
        elif r == "":
            if not be_has_exec:
                V(out_v, "C18", "succeeded-empty-result-without-execution-record", f"{name}")
        else:
            try:
                json.loads(r)
            except Exception:  # noqa: BLE001
                V(out_v, "C18", "succeeded-result-not-json-text", f"{name}: Result {r!r:.80} does not parse")
    elif st == "FAILED":
        if "Result" in o and o["Result"] is not None:
            V(out_v, "C18", "failed-with-result", f"{name}: {o!r:.200}")
        e = o.get("Error")
        if e is None:
            if not be_has_exec:
                V(out_v, "C18", "failed-without-error-object", f"{name}: {o!r:.200}")
        elif not isinstance(e, dict) or not set(e) <= {"ErrorMessage", "ErrorType", "ErrorData", "StackTrace"}:
            V(out_v, "C18", "failed-error-object-malformed", f"{name}: Error {e!r:.200}")
    elif st == "PENDING":
        if set(o) != {"Status"}:
            V(out_v, "C18", "pending-with-payload", f"{name}: {o!r:.200}")
    else:
        V(out_v, "C18", "unknown-status", f"{name}: Status {st!r}")


def judge(d, _=None):
    out = []
    m = d.program.get("meta", {})
    be = d.backend
    for inv in d.invocations:
        tag = f"{d.program['name']} invocation {inv['n']}"
        if inv["outcome"] == "crashed":
            continue
        if inv["outcome"] == "hung":
            V(out, "C18", "no-outcome", f"{tag}: the invocation never ended ({inv['end']}; {hang_signature(inv)})",
              stuck=hang_signature(inv))
            continue
        leaked = [n for n in inv.get("live_at_end", []) if n.startswith("dex-handler")]
        if leaked:
            V(out, "C18", "handler-threads-alive-after-outcome", f"{tag}: threads {leaked} still alive")
        faults = inv.get("faults") or []
        if inv["outcome"] == "returned":
            wellformed(out, inv["out"], tag, inv.get("exec_result_at_return"))
        elif inv["outcome"] == "raised":
            cls = inv["exc"]["cls"]
            mro = inv["exc"]["mro"]
            allowed = bool(set(mro) & INVOCATION_FAMILY)
            if cls == "CheckpointError" and faults:
                allowed = faults[0]["name"] in ("4xx", "4xx-tokenmsg", "403")   # only retriable checkpoint errors trigger a retry
                if faults[0]["name"].startswith("badresp"):
                    allowed = True   # an unparseable response: retry or FAILED are both defensible
                if not allowed:
                    V(out, "C18", "non-retriable-checkpoint-error-raised", f"{tag}: {faults[0]['name']} raised {cls}")
                    continue
            if not allowed:
                V(out, "C18", "wrapper-raised-non-retry-error",
                  f"{tag}: the wrapper raised {cls}: {inv['exc']['msg'][:100]}", cls=cls if cls in USER_FAMILY else "sdk:" + cls)
        # expectations for the simple cases (no fault in this invocation)
        inv_family_case = m.get("kind") == "raise" and m["cls"] in ("InvocationError", "StepInterruptedError")
        if faults:
            f0 = faults[0]
            if "call" in f0 and not f0["name"].startswith("badresp") and f0["name"] != "blackhole":
                want_raise = f0["name"] in ("4xx", "4xx-tokenmsg", "403")
                o_ = inv.get("out") if inv["outcome"] == "returned" else None
                st_ = o_.get("Status") if isinstance(o_, dict) else None
                if want_raise and inv["outcome"] == "returned" and st_ == "FAILED":
                    V(out, "C18", "retriable-checkpoint-error-not-raised",
                      f"{tag}: checkpoint call {f0['call']} was rejected with a retriable error ({f0['name']}) but the wrapper "
                      f"returned FAILED instead of raising for a Lambda retry", fault=f0["name"])
            continue
        if m.get("kind") == "suspend" or inv_family_case:
            if inv["n"] != 0:
                continue
        elif inv["n"] != len(d.invocations) - 1:
            continue
        o = inv.get("out") if inv["outcome"] == "returned" else None
        st = o.get("Status") if isinstance(o, dict) else None
        if m.get("kind") == "return":
            name = m["ret"]
            if name in ("object", "bytes"):
                if st != "FAILED":
                    V(out, "C18", "non-json-result-not-failed", f"{tag}: handler returned a non-JSON value, outcome {st or inv['outcome']}")
            elif st != "SUCCEEDED":
                V(out, "C18", "json-result-not-succeeded", f"{tag}: handler returned a JSON value, outcome {st or inv['outcome']}", ret=name)
        elif m.get("kind") == "raise":
            cls, place = m["cls"], m["place"]
            if place in ("top", "child", "serdes", "step") and not any(i.get("crash") for i in d.invocations):
                inv_family = cls in ("InvocationError", "StepInterruptedError")
                if inv_family and place in ("top", "child"):
                    if inv["outcome"] != "raised":
                        V(out, "C18", "invocation-error-not-raised", f"{tag}: {cls} at {place} ended as {st or inv['outcome']}", place=place)
                elif not inv_family:
                    if st != "FAILED":
                        V(out, "C18", "user-or-sdk-error-not-failed",
                          f"{tag}: {cls} at {place} ended as {st or inv['outcome']} {inv.get('exc')}", cls=cls, place=place)
                    elif place == "top" and isinstance(o.get("Error"), dict):
                        et = o["Error"].get("ErrorType")
                        if et != cls:
                            V(out, "C18", "error-type-lost", f"{tag}: raised {cls}, Error.ErrorType is {et!r}")
        elif m.get("kind") == "suspend" and inv["n"] == 0:
            if st != "PENDING":
                V(out, "C18", "suspension-not-pending", f"{tag}: first invocation of a parking program ended as {st or inv['outcome']}",
                  unit=m["unit"])
    return out


def exec_one(unit, prefix, expect=None):
    if unit.get("malformed") is not None:
        return exec_malformed(unit, prefix)
    return simcheck.exec_with([judge], unit, prefix, expect)


# ----------------------------------------------------------------------------- malformed payloads
def malformed_events():
    good_exec = {"Id": "e", "Type": "EXECUTION", "Status": "STARTED", "ExecutionDetails": {"InputPayload": "{}"}}
    base = {"DurableExecutionArn": ARN, "CheckpointToken": "tok-1", "InitialExecutionState": {"Operations": [good_exec]}}
    ev = {
        "ok-baseline": base,
        "missing-arn": {k: v for k, v in base.items() if k != "DurableExecutionArn"},
        "missing-token": {k: v for k, v in base.items() if k != "CheckpointToken"},
        "missing-state": {k: v for k, v in base.items() if k != "InitialExecutionState"},
        "not-a-dict": "just a string",
        "none": None,
        "list": [1, 2],
        "operations-not-a-list": dict(base, InitialExecutionState={"Operations": {"a": 1}}),
        "operation-not-a-dict": dict(base, InitialExecutionState={"Operations": ["x"]}),
        "bad-status": dict(base, InitialExecutionState={"Operations": [dict(good_exec, Status="NOPE")]}),
        "bad-type": dict(base, InitialExecutionState={"Operations": [dict(good_exec, Type="NOPE")]}),
        "first-op-not-execution": dict(base, InitialExecutionState={"Operations": [{"Id": "s", "Type": "STEP", "Status": "SUCCEEDED"}]}),
        "bad-input-json": dict(base, InitialExecutionState={"Operations": [dict(good_exec, ExecutionDetails={"InputPayload": "{not json"})]}),
        "empty-input": dict(base, InitialExecutionState={"Operations": [dict(good_exec, ExecutionDetails={"InputPayload": "  "})]}),
        "empty-operations": dict(base, InitialExecutionState={"Operations": []}),
        "timestamp-wrong-type": dict(base, InitialExecutionState={"Operations": [dict(good_exec, StartTimestamp="yesterday")]}),
    }
    return ev


def exec_malformed(unit, prefix):
    from aws_durable_execution_sdk_python.execution import durable_execution
    from vcheck.sim.driver import Driver, LambdaCtx
    name = unit["malformed"]
    event = malformed_events()[name]
    d = Driver({"name": "noop", "seq": []}, {}, prefix)
    res = {}

    def handler(ev, ctx):
        return {"ok": True}

    def main():
        try:
            res["out"] = durable_execution(handler, boto3_client=d.backend)(event, LambdaCtx())
        except core.Killed:
            raise
        except BaseException as e:  # noqa: BLE001
            res["exc"] = e
    ex = core.Exec(chooser=d.chooser, horizon=60.0)
    d.ex = ex
    d.running = True
    ex.run(main)
    d.running = False
    viol = []
    if ex.internal_error:
        return explore.RunResult(trace=ex.trace, steps=ex.steps, internal=str(ex.internal_error), info={"end": "internal"})
    tag = f"malformed[{name}]"
    if ex.end_reason != "main-returned":
        V(viol, "C18", "no-outcome", f"{tag}: never ended ({ex.end_reason})", stuck="malformed-payload")
    elif "out" in res:
        wellformed(viol, res["out"], tag, False)
    leaked = [t.name for t in ex.live_at_end if t.name.startswith("dex-handler")]
    if leaked:
        V(viol, "C18", "handler-threads-alive-after-outcome", f"{tag}: threads {leaked} still alive")
    for v in viol:
        v["replay"] = {"malformed": name, "prefix": []}
    outcome = ("out", res["out"].get("Status") if isinstance(res.get("out"), dict) else repr(res.get("out"))) if "out" in res \
        else ("exc", type(res.get("exc")).__name__)
    return explore.RunResult(trace=ex.trace, steps=ex.steps, violations=viol, outcome=[name, outcome], info={"end": ex.end_reason})


def label(unit):
    if unit.get("malformed") is not None:
        return {"malformed": unit["malformed"]}
    return simcheck.label(unit)


def space(tier):
    quick = tier == "quick"
    cap = 20_000 if quick else 400_000
    units = []
    for p in programs():
        units.append(({"program": p, "cfg": {"env_kinds": []}}, {"total": 0}, cap))
        if p["meta"]["kind"] in ("suspend",) or p["meta"].get("place") in ("child", "branch"):
            units.append(({"program": p, "cfg": {"env_kinds": ["fault"], "faults": ["5xx", "4xx"]}}, {"fault": 1, "total": 1}, cap))
    fprogs = FAULT_PROGRAMS if quick else FAULT_PROGRAMS + ["K", "N", "C+S", "R", "Pc", "M"]
    for name in fprogs:
        p = P.program(tuple(name.split("+")))
        p["meta"] = {"kind": "fault"}
        units.append(({"program": p, "cfg": {"env_kinds": ["fault", "page"], "faults": FAULTS, "state_faults": ["5xx", "4xx"],
                                             "page_modes": [0, 1, 4]}},
                      {"fault": 1, "page": 1, "total": 2} if quick else {"fault": 2, "page": 1, "total": 3}, cap))
        for pol in ("low", "high"):
            units.append(({"program": p, "cfg": {"env_kinds": ["fault"], "faults": ["5xx", "4xx"], "policy": pol}},
                          {"fault": 1, "total": 1}, cap))
    # an update queued behind the failing in-flight call (50 ms API latency, step bodies of 120 ms)
    for names in (("Sd",), ("Hd",), ("Sd", "S")):
        p = P.program(names)
        p["meta"] = {"kind": "fault"}
        for pol in ("rtb", "low", "high"):
            units.append(({"program": p, "cfg": {"env_kinds": ["fault"], "faults": ["5xx", "4xx"], "api_latency": 0.05, "policy": pol}},
                          {"fault": 1, "total": 1}, cap))
    big = {"name": "S+bigresult", "meta": {"kind": "fault"}, "seq": P.U("S"), "ret": {"pad": 6 * 1024 * 1024}}
    units.append(({"program": big, "cfg": {"env_kinds": ["fault"], "faults": FAULTS}}, {"fault": 1, "total": 1}, cap))
    for name in malformed_events():
        units.append(({"malformed": name}, {"total": 0}, 10))
    return units


def run(ctx):
    cov, viols, internal = common.explore_units(ctx, MOD, space(ctx.tier), label=label)
    cov["bounds"] = ("handlers returning {None, dict, str, list, 0, NaN, tuple, object(), bytes}; raising 13 exception classes "
                     "(user and SDK) from top level, from a child context, from a parallel branch and from inside a step; "
                     "serialization failure; validation failure; uncaught failed step; suspension from 8 parking shapes; "
                     "checkpoint faults {5xx, 429, 4xx, 403, invalid token, 4xx with the invalid-token message but another code, four kinds of unparseable 200 responses} and get-state faults at every call position of 6 "
                     "(quick) / 12 (thorough) programs combined with pagination modes, three policies; 16 malformed payloads")
    cov["explanation"] = "each trace is an invocation (or execution) through the production wrapper returned by durable_execution"
    return {"coverage": cov, "violations": viols, "internal": internal,
            "assumptions": ["process-control BaseExceptions raised by user code are out of scope",
                            "classification: 4xx checkpoint errors (not 429/invalid token) and invocation-class errors raise; "
                            "everything else is reported in the returned status"]}


def replay(rep):
    r = rep["replay"]
    if r.get("malformed") is not None:
        res = exec_malformed({"malformed": r["malformed"]}, [])
        return {"violations": [{"sig": v["sig"], "msg": v["msg"]} for v in res.violations], "internal": res.internal}
    unit = {"program": r["program"], "cfg": r["cfg"]}
    res = exec_one(unit, r["prefix"], expect=r.get("options"))
    return {"violations": [{"sig": v["sig"], "msg": v["msg"]} for v in res.violations], "internal": res.internal,
            "summary": res.info["driver"].summary()}
