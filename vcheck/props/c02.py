"""C02 - see DESIGN.md section 6/C02.  Space: the standard program corpus x crash points x
pagination modes x scheduler policies (+ scheduling deviations on concurrent shapes)."""
from __future__ import annotations

from vcheck.props import simcheck
from vcheck.sim import monitors, run as simrun

MOD = "vcheck.props.c02"
JUDGES = [monitors.judge_c02]
NEED_BASE = True


def exec_one(unit, prefix, expect=None):
    return simcheck.exec_with(JUDGES, unit, prefix, expect, need_base=NEED_BASE)


VALUES = {
    "tuple": {"$t": "tuple", "v": [1, "a", None, {"$t": "tuple", "v": []}]},
    "nested-dict": {"a": {"b": [1, {"$t": "tuple", "v": [2, 3]}], "t": "x", "v": None}, "": []},
    "decimal": {"$t": "dec", "v": "1.10"},
    "bytes": {"$t": "bytes", "v": "00ff10"},
    "datetime": {"$t": "dt", "v": "2024-01-02T03:04:05.678901+05:30"},
    "naive-datetime": {"$t": "dt", "v": "2024-01-02T03:04:05"},
    "date": {"$t": "date", "v": "2024-02-29"},
    "uuid": {"$t": "uuid", "v": "12345678-1234-5678-1234-567812345678"},
    "none": None, "true": True, "one": 1, "zero-float": 0.0, "neg-zero": {"$t": "float", "v": "-0.0"},
    "nan-in-list": [{"$t": "float", "v": "nan"}], "empty-list": [], "empty-tuple": {"$t": "tuple", "v": []},
    "empty-dict": {}, "empty-str": "", "lookalike": {"t": "i", "v": 5}, "big-int": 2 ** 70,
    "list-of-tuples": [{"$t": "tuple", "v": [1]}, {"$t": "tuple", "v": [True, 1, 1.0]}],
}


def value_programs(tier):
    out = []
    names = list(VALUES) if tier != "quick" else list(VALUES)
    for n in names:
        v = VALUES[n]
        out.append({"name": f"value[{n}]", "seq": [
            {"k": "step", "fn": {"ret": v}}, {"k": "wait", "s": 1},
            {"k": "child", "body": [{"k": "step", "fn": {"ret": v}}, {"k": "wait", "s": 1}], "ret": v},
            {"k": "wfc", "init": v, "check": {"fn": "id"}, "decide": [{"cont": 1}, "stop"]},
            {"k": "par", "cfg": {"cc": "all_completed"}, "branches": [[{"k": "step", "fn": {"ret": v}}], [{"k": "wait", "s": 1}]]},
            # ... and as the branch's own result (not wrapped in a list)
            {"k": "par", "cfg": {"cc": "all_completed"}, "branch_ret": "last",
             "branches": [[{"k": "step", "fn": {"ret": v}}], [{"k": "wait", "s": 1}]]},
            {"k": "step", "fn": {"ret": "end"}}]})
    return out


def mutation_programs():
    """User code mutates a delivered container in place; a later operation delivers an equal value."""
    out = []
    for n, v in (("list", [1, 2]), ("dict", {"a": [1], "b": {}}), ("nested-list", [[1], {"k": []}]),
                 ("long-list", list(range(400))), ("long-nested", [list(range(300)), ["x"] * 200])):
        out.append({"name": f"mutated[{n}]", "seq": [
            {"k": "step", "fn": {"ret": v}, "mutate": True}, {"k": "step", "fn": {"ret": v}}, {"k": "wait", "s": 1},
            {"k": "step", "fn": {"ret": v}, "mutate": True}, {"k": "wait", "s": 1},
            {"k": "child", "body": [{"k": "step", "fn": {"ret": v}}], "ret": v}, {"k": "wait", "s": 1},
            {"k": "step", "fn": {"ret": "end"}}]})
    return out


ERR_MSGS = {"empty": "", "plain": "boom", "unicode": "caf\u00e9 \u2603", "long": "m" * 300, "colon": "a: b: c",
            "none-word": "None", "newline": "l1\nl2"}


def error_programs():
    """Failing operations caught by exception class; the message alphabet includes the empty string."""
    out = []
    C = ["CallableRuntimeError", "Boom", "ValueError"]
    for n, msg in ERR_MSGS.items():
        for cls in ("Boom", "ValueError"):
            fail_step = {"k": "try", "catch": C, "body": {"k": "step", "fn": {"raise": cls, "msg": msg}, "retry": "none"}}
            fail_child = {"k": "try", "catch": C, "body": {"k": "child", "body": [{"k": "step", "fn": {"ret": 1}},
                                                                                {"k": "raise", "cls": cls, "msg": msg}]}}
            # tolerated failure: the call waits for both branches, so its result does not depend on timing
            fail_branch = {"k": "par", "cfg": {"tol_n": 1}, "branches": [
                [{"k": "step", "fn": {"raise": cls, "msg": msg}, "retry": "none"}], [{"k": "step", "fn": {"ret": 2}}]]}
            out.append({"name": f"error[{cls};{n}]", "seq": [fail_step, {"k": "wait", "s": 1}, fail_child, {"k": "wait", "s": 1},
                                                             fail_branch, {"k": "wait", "s": 1}, {"k": "step", "fn": {"ret": "end"}}]})
    return out


def run(ctx):
    units = simcheck.standard_space(ctx.tier)
    cap = 20_000 if ctx.tier == "quick" else 400_000
    big = [{"k": "step", "fn": {"bytes": 150_000}}]
    for cname, cfg in (("tol1", {"tol_n": 1}), ("pct50", {"tol_pct": 50})):
        p = {"name": f"oversized-par[{cname}]", "seq": [
            {"k": "par", "cfg": cfg, "branches": [big, [{"k": "step", "fn": {"raise": "Boom", "msg": "x"}, "retry": "none"}], big]},
            {"k": "wait", "s": 1}, {"k": "step", "fn": {"ret": "end"}}]}
        units.append(({"program": p, "cfg": {"env_kinds": ["crash"]}}, {"crash": 1, "total": 1}, cap))
    for p in error_programs():
        units.append(({"program": p, "cfg": {"env_kinds": ["crash"]}},
                      {"crash": 1, "total": 1} if ctx.tier == "quick" else {"crash": 2, "total": 2}, cap))
    for p in mutation_programs():
        units.append(({"program": p, "cfg": {"env_kinds": ["crash"]}}, {"crash": 1, "total": 1}, cap))
    for p in value_programs(ctx.tier):
        units.append(({"program": p, "cfg": {"env_kinds": ["crash", "page"], "page_modes": [0, 1, 4]}},
                      {"crash": 1, "page": 1, "total": 1} if ctx.tier == "quick" else {"crash": 2, "page": 1, "total": 2}, cap))
    return simcheck.run_check(ctx, MOD, units, BOUNDS + "; plus 21 value programs (tuple, nested dict, Decimal, bytes, aware/naive "
                              "datetime, date, UUID, None, bool, ints, signed zero, NaN, empty containers, envelope look-alike, "
                              "2^70) delivered by a step, a child context, wait_for_condition and a parallel branch, each replayed "
                              "after every suspension and every single crash point; 14 error programs (two exception classes x messages "
                              "{empty, plain, unicode, 300 chars, colons, 'None', multi-line}) failing in a step, a child context and a "
                              "parallel branch, caught by class and replayed; 5 programs whose user code mutates a delivered list/dict in place "
                              "before an equal value is delivered by a later operation")


def replay(rep):
    r = rep["replay"]
    unit = {"program": r["program"], "cfg": r["cfg"]}
    res = exec_one(unit, r["prefix"], expect=r.get("options"))
    d = res.info["driver"]
    return {"violations": [{"sig": v["sig"], "msg": v["msg"]} for v in res.violations],
            "internal": res.internal, "summary": d.summary()}


BOUNDS = ("programs: all sequences of <=2 units over 14 unit kinds (step, typed-value step, at-most-once step, "
          "retrying step, caught failing step, wait, callback, callback+step, wait_for_callback, invoke, "
          "wait_for_condition, child[step,wait,step], parallel[2 branches], map[2 items]) and <=3 units over 6 kinds, "
          "plus nested shapes; per program: every single crash point (before/after each backend call, at each user "
          "function entry, after the handler returned) and every pagination mode of each re-invocation (quick: one "
          "deviation; one-unit programs and thorough: two); policies rtb/low/high; +1 scheduling/timer deviation on "
          "concurrent shapes")
