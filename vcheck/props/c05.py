"""C05 - checkpoint stream: nothing lost, duplicated or reordered; limits respected; every
synchronous caller released.  Component harness on the real ExecutionState (see batcher.py)."""
from __future__ import annotations

from vcheck import common
from vcheck.props import batcher
from vcheck.vsched import explore

MOD = "vcheck.props.c05"


def exec_one(cfg, prefix, expect=None):
    ex, calls, events, failure, internal = batcher.run_one(cfg, prefix, expect)
    viol = [] if internal else batcher.judge_stream(cfg, ex, calls, events)
    for v in viol:
        v["replay"] = {"cfg": cfg, "prefix": ex.choices(), "options": [list(o) for o, _ in ex.trace]}
        v["calls"] = calls
        v["events"] = [list(e) for e in events]
    return explore.RunResult(trace=ex.trace, steps=ex.steps, violations=viol,
                             outcome=batcher.outcome(calls, events), internal=internal,
                             info={"end": ex.end_reason})


P1 = ["as", "aas", "ss", "LL", "aLs", "aO", "O", "Os", "sO", "ae", "e", "LOs", "aaas", "lls", "Ea", "oas", "aOs"]
P2 = [("as", "as"), ("s", "s"), ("L", "L"), ("aL", "s"), ("s", "O"), ("as", "L"), ("ae", "s"),
      ("aa", "s"), ("a", "O"), ("ll", "s"), ("O", "O")]
P3 = [("s", "s", "s"), ("a", "as", "L"), ("aL", "s", "a"), ("s", "O", "a")]


def configs(tier):
    quick = tier == "quick"
    out = []
    cap = 200_000 if quick else 3_000_000
    b1 = {"thread": 2, "timer": 1, "total": 2} if quick else {"thread": 3, "timer": 2, "total": 3}
    b2 = {"thread": 2, "timer": 1, "total": 2} if quick else {"thread": 3, "timer": 1, "total": 3}
    for seq in P1:
        for max_ops in (2, 250):
            out.append(({"producers": [seq], "max_ops": max_ops, "window": 1.0}, b1, cap))
    for seqs in P2:
        for max_ops in ((1, 250) if quick else (1, 2, 250)):
            out.append(({"producers": list(seqs), "max_ops": max_ops, "window": 1.0}, b2, cap))
    for seqs in P2[:4]:
        out.append(({"producers": list(seqs), "max_ops": 250, "window": 0.3, "latency": 0.05}, b2, cap))
    for pol in ("low", "high"):
        for seqs in (("as", "as"), ("aL", "s"), ("s", "O")):
            out.append(({"producers": list(seqs), "max_ops": 250, "window": 1.0, "policy": pol},
                        {"thread": 1, "timer": 1, "total": 1} if quick else b2, cap))
    # a failing call: every synchronous caller is released with the failure, never with a false success;
    # one preemption at any line of state.py / threading.py
    for seqs in (("s",), ("as",), ("s", "s")):
        units = out
        units.append(({"producers": list(seqs), "max_ops": 250, "window": 1.0, "fail_at": 1, "fail_cls": "runtime",
                       "line": True, "timer": False, "horizon": 30.0}, {"thread": 1 if quick else 2}, cap))
    # non-ASCII payloads: the size that counts is the serialized request (escaped), limit 700 bytes = two raw, not two escaped
    for seqs in (("UU",), ("uU",), ("U", "U"), ("uU", "U"), ("aU", "uU")):
        out.append(({"producers": list(seqs), "max_ops": 250, "window": 1.0, "max_bytes": 700}, b1 if len(seqs) == 1 else b2, cap))
    # a failing call while other updates wait in the overflow queue (batch size limit): every caller is released
    for seqs in (("L", "L"), ("LL",), ("L", "Ls"), ("aL", "L")):
        for k in (1, 2):
            out.append(({"producers": list(seqs), "max_ops": 250, "window": 1.0, "fail_at": k, "fail_cls": "runtime",
                         "horizon": 30.0}, {"thread": 1, "timer": 1, "total": 1} if quick else b2, cap))
    # a paginated checkpoint response: the follow-up page is fetched (or fails to be) before callers are released
    for seqs in (("s",), ("as", "s"), ("s", "s")):
        for sf in (False, True):
            out.append(({"producers": list(seqs), "max_ops": 250, "window": 1.0, "paged_at": 1, "state_fail": sf,
                         "horizon": 30.0}, {"thread": 1, "timer": 1, "total": 1} if quick else b2, cap))
    # lost wake-ups: <=2 stalls of 250 ms (a runnable thread loses the CPU while the others go on) at signalling / waiting
    # operations, plus one ordinary preemption
    for seqs in P2:
        out.append(({"producers": list(seqs), "max_ops": 250, "window": 1.0, "timer": False, "stall": [0.25],
                     "stall_ops": ["signal", "wait"]}, {"stall": 2, "thread": 1, "total": 3}, cap))
    if not quick:
        for seqs in P3:
            out.append(({"producers": list(seqs), "max_ops": 2, "window": 1.0},
                        {"thread": 2, "timer": 1, "total": 2}, cap))
        for seqs in (("as", "s"), ("aL", "s"), ("s", "O")):
            out.append(({"producers": list(seqs), "max_ops": 250, "window": 1.0, "line": True,
                         "timer": False}, {"thread": 2}, cap))
    return out


def run(ctx):
    units = configs(ctx.tier)
    cov, viols, internal = common.explore_units(ctx, MOD, units)
    cov["bounds"] = ("1-2 producers (3 in thorough) x <=4 create_checkpoint calls each over {async/sync small, "
                     "sync/async large, sync/async oversize, sync/async empty}; max_batch_operations in {1,2,250}; "
                     "size limit 400 bytes; window 1.0/0.3 s; all schedules with <=2 (quick) / <=3 (thorough) "
                     "deviations (thread choices + 'timeout fires first'); policies rtb/low/high; three configurations with a failing "
                     "call under line-level preemption; five configurations with non-ASCII payloads (size limit 700 bytes) in state.py/threading.py; three configurations whose first response is "
                     "paginated, with the follow-up page fetch succeeding or failing; 11 two-producer configurations with <=2 stalls of "
                     "250 ms at signalling/waiting operations plus one preemption")
    cov["explanation"] = ("each trace is an execution of the real ExecutionState.create_checkpoint / "
                          "checkpoint_batches_forever against a recording service client")
    return {"coverage": cov, "violations": viols, "internal": internal,
            "assumptions": ["virtual Queue/Event/Lock mirror the stdlib (selftest)",
                            "update sizes measured as the SDK does (JSON of the wire dict)"]}


def replay(rep):
    r = rep["replay"]
    res = exec_one(r["cfg"], r["prefix"], expect=r.get("options"))
    return {"violations": [{"sig": v["sig"], "msg": v["msg"]} for v in res.violations],
            "calls": res.violations[0]["calls"] if res.violations else None,
            "internal": res.internal}
