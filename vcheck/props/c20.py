"""C20 - wire model codecs are lossless inverses (E3: bounded exhaustive enumeration of every
model class over {absent, empty, value} per optional field and every enum member)."""
from __future__ import annotations

import dataclasses
import datetime as dt
import enum
import itertools

MOD = "vcheck.props.c20"
UTC = dt.timezone.utc
EPOCH = dt.datetime(1970, 1, 1, tzinfo=UTC)
T1 = dt.datetime(2024, 1, 2, 3, 4, 5, 678000, tzinfo=UTC)
T2 = dt.datetime(2025, 6, 7, 8, 9, 10, 1000, tzinfo=UTC)   # 1 ms: exercises the float path
T3 = dt.datetime(2023, 11, 14, 22, 13, 20, 301000, tzinfo=UTC)


def ms_to_dt(ms):
    return EPOCH + dt.timedelta(milliseconds=ms)


def flatten(x, prefix=""):
    """path -> value on the protocol's fields; drops None, "", empty containers/sub-objects;
    datetimes truncated to whole milliseconds since the epoch."""
    out = {}
    if x is None or x == "" or x == [] or x == {}:
        return out
    if dataclasses.is_dataclass(x) and not isinstance(x, type):
        for f in dataclasses.fields(x):
            out.update(flatten(getattr(x, f.name), f"{prefix}.{f.name}" if prefix else f.name))
        return out
    if isinstance(x, enum.Enum):
        out[prefix] = x.value
        return out
    if isinstance(x, dt.datetime):
        out[prefix] = (x - EPOCH) // dt.timedelta(milliseconds=1)
        return out
    if isinstance(x, (list, tuple)):
        for i, e in enumerate(x):
            sub = flatten(e, f"{prefix}[{i}]")
            if not sub and e not in (None, "", [], {}):
                out[f"{prefix}[{i}]"] = e
            out.update(sub)
        if not out:
            out[prefix] = "<list of empties>"
        return out
    out[prefix] = x
    return out


def errors():
    from aws_durable_execution_sdk_python.lambda_service import ErrorObject
    vals = [None, "", "x"]
    for m, t, d in itertools.product(vals, repeat=3):
        for st in (None, [], ["a", "b"]):
            yield ErrorObject(m, t, d, st)


def few_errors():
    from aws_durable_execution_sdk_python.lambda_service import ErrorObject
    return [None, ErrorObject(None, None, None, None), ErrorObject("msg", "Type", "data", ["l1"]),
            ErrorObject("", "T", None, [])]


def details_variants():
    """(field name, details object) for every details class over its field alphabets."""
    from aws_durable_execution_sdk_python import lambda_service as L
    S = [None, "", "res"]
    out = []
    for p in S:
        out.append(("execution_details", L.ExecutionDetails(input_payload=p)))
    for rc, r, e in itertools.product([False, True], S, few_errors()):
        out.append(("context_details", L.ContextDetails(replay_children=rc, result=r, error=e)))
    for a, ts, r, e in itertools.product([0, 1, 7], [None, T1, T2], S, few_errors()):
        out.append(("step_details", L.StepDetails(attempt=a, next_attempt_timestamp=ts, result=r, error=e)))
    for ts in (None, T1, T2, T3):
        out.append(("wait_details", L.WaitDetails(scheduled_end_timestamp=ts)))
    for cid, r, e in itertools.product(["", "cb-1"], S, few_errors()):
        out.append(("callback_details", L.CallbackDetails(callback_id=cid, result=r, error=e)))
    for r, e in itertools.product(S, few_errors()):
        out.append(("chained_invoke_details", L.ChainedInvokeDetails(result=r, error=e)))
    return out


def operations():
    from aws_durable_execution_sdk_python import lambda_service as L
    subtypes = [None] + list(L.OperationSubType)
    # scalar products without details
    for ty, stt in itertools.product(L.OperationType, L.OperationStatus):
        for parent, name in itertools.product([None, "", "par"], [None, "", "nm"]):
            for st, en in itertools.product([None, T1, T2], [None, T3]):
                for sub in (None, L.OperationSubType.STEP, L.OperationSubType.WAIT_FOR_CONDITION):
                    yield L.Operation("op1", ty, stt, parent, name, st, en, sub)
    for sub in subtypes:
        yield L.Operation("op2", L.OperationType.CONTEXT, L.OperationStatus.STARTED, sub_type=sub)
    # every details variant on a few scalar bases
    bases = [dict(parent_id=None, name=None, start_timestamp=None, end_timestamp=None),
             dict(parent_id="par", name="nm", start_timestamp=T2, end_timestamp=T3),
             dict(parent_id="", name="", start_timestamp=T1, end_timestamp=None)]
    ty_for = {"execution_details": L.OperationType.EXECUTION, "context_details": L.OperationType.CONTEXT,
              "step_details": L.OperationType.STEP, "wait_details": L.OperationType.WAIT,
              "callback_details": L.OperationType.CALLBACK, "chained_invoke_details": L.OperationType.CHAINED_INVOKE}
    dv = details_variants()
    for fname, det in dv:
        for b in bases:
            for stt in (L.OperationStatus.STARTED, L.OperationStatus.SUCCEEDED, L.OperationStatus.FAILED,
                        L.OperationStatus.PENDING):
                yield L.Operation("op3", ty_for[fname], stt, sub_type=None, **b, **{fname: det})
    # pairwise across details classes
    by = {}
    for fname, det in dv:
        by.setdefault(fname, []).append(det)
    names = list(by)
    for a, b in itertools.combinations(names, 2):
        for da in by[a][::7]:
            for db in by[b][::7]:
                yield L.Operation("op4", L.OperationType.STEP, L.OperationStatus.READY, **{a: da, b: db})


def updates():
    from aws_durable_execution_sdk_python import lambda_service as L
    S = [None, "", "pay"]
    for ty, ac in itertools.product(L.OperationType, L.OperationAction):
        for parent, name, payload in itertools.product([None, "", "par"], [None, "", "nm"], S):
            for sub in (None, L.OperationSubType.MAP, L.OperationSubType.CHAINED_INVOKE):
                for e in few_errors():
                    yield L.OperationUpdate("u1", ty, ac, parent, name, sub, payload, e)
    opts = []
    for rc in (False, True):
        opts.append(dict(context_options=L.ContextOptions(replay_children=rc)))
    for d in (0, 1, 300):
        opts.append(dict(step_options=L.StepOptions(next_attempt_delay_seconds=d)))
    for w in (1, 5, 31622400):
        opts.append(dict(wait_options=L.WaitOptions(wait_seconds=w)))
    for t, h in itertools.product((0, 10), (0, 3)):
        opts.append(dict(callback_options=L.CallbackOptions(timeout_seconds=t, heartbeat_timeout_seconds=h)))
    for fn, ten in itertools.product(("", "fn"), (None, "", "tenant")):
        opts.append(dict(chained_invoke_options=L.ChainedInvokeOptions(function_name=fn, tenant_id=ten)))
    for o in opts:
        for ty, ac in itertools.product(L.OperationType, (L.OperationAction.START, L.OperationAction.SUCCEED, L.OperationAction.RETRY)):
            for sub in [None] + list(L.OperationSubType):
                yield L.OperationUpdate("u2", ty, ac, "par", "nm", sub, "pay", None, **o)
    for a, b in itertools.combinations(range(len(opts)), 2):
        merged = dict(opts[a])
        merged.update(opts[b])
        if len(merged) == 2:
            yield L.OperationUpdate("u3", L.OperationType.STEP, L.OperationAction.RETRY, **merged)


def check_roundtrips(objs, codecs, what):
    viol = {}
    n = 0
    samples = []
    for x in objs:
        n += 1
        if n % 5003 == 1 and len(samples) < 2:
            samples.append(repr(x)[:220])
        fx = flatten(x)
        for cname, to, frm in codecs:
            try:
                w = to(x)
                y = frm(w)
            except Exception as e:  # noqa: BLE001
                sig = f"C20/codec-raises/class={what}/codec={cname}/exc={type(e).__name__}"
                viol.setdefault(sig, {"sig": sig, "msg": f"{type(e).__name__}: {e} for {x!r}"[:400]})
                continue
            # the same wire dictionary decodes to the same object again (decoding does not consume or alter it)
            try:
                fy2 = flatten(frm(w))
            except Exception as e:  # noqa: BLE001
                fy2 = {"<second-decode-raised>": f"{type(e).__name__}: {e}"[:120]}
            if fy2 != fx and flatten(y) == fx:
                field = sorted(k for k in set(fx) | set(fy2) if fx.get(k) != fy2.get(k))[0]
                sig = f"C20/second-decode-of-same-dict-differs/class={what}/codec={cname}/field={_generic(field)}"
                viol.setdefault(sig, {"sig": sig, "msg": f"{what} via {cname}: decoding the same dictionary a second time gives "
                                                         f"{field}: {fx.get(field)!r} -> {fy2.get(field)!r}; object {x!r}"[:500]})
            fy = flatten(y)
            if fx != fy:
                lost = sorted(k for k in fx if k not in fy)
                changed = sorted(k for k in fx if k in fy and fx[k] != fy[k])
                added = sorted(k for k in fy if k not in fx)
                field = (lost + changed + added)[0]
                kind = "lost" if lost else ("changed" if changed else "added")
                sig = f"C20/round-trip/class={what}/codec={cname}/{kind}={_generic(field)}"
                viol.setdefault(sig, {"sig": sig, "msg": f"{what} via {cname}: field {field} {kind}: "
                                                         f"{fx.get(field)!r} -> {fy.get(field)!r}; object {x!r}"[:500]})
    return n, list(viol.values()), samples


def _generic(field):
    import re
    return re.sub(r"\[\d+\]", "[]", field)


def chunk(arg):
    from aws_durable_execution_sdk_python import execution as E
    from aws_durable_execution_sdk_python import lambda_service as L
    which = arg[0]
    if which == "error":
        return pack(which, *check_roundtrips(errors(), [("dict", lambda x: x.to_dict(), L.ErrorObject.from_dict)], "ErrorObject"))
    if which == "options":
        n = 0
        viol = []
        samples = []
        for cls, objs in (
            (L.StepOptions, [L.StepOptions(d) for d in (0, 1, 300)]),
            (L.WaitOptions, [L.WaitOptions(w) for w in (1, 5, 31622400)]),
            (L.CallbackOptions, [L.CallbackOptions(t, h) for t in (0, 10) for h in (0, 3)]),
            (L.ChainedInvokeOptions, [L.ChainedInvokeOptions(f, t) for f in ("", "fn") for t in (None, "", "ten")]),
            (L.ContextOptions, [L.ContextOptions(False), L.ContextOptions(True)]),
        ):
            a, b, c = check_roundtrips(objs, [("dict", lambda x: x.to_dict(), cls.from_dict)], cls.__name__)
            n += a
            viol += b
            samples += c
        return pack(which, n, viol, samples)
    if which == "operation":
        k, nch = arg[1], arg[2]
        objs = (o for i, o in enumerate(operations()) if i % nch == k)
        return pack(which, *check_roundtrips(objs, [
            ("dict", lambda x: x.to_dict(), L.Operation.from_dict),
            ("json", lambda x: x.to_json_dict(), L.Operation.from_json_dict)], "Operation"))
    if which == "update":
        k, nch = arg[1], arg[2]
        objs = (o for i, o in enumerate(updates()) if i % nch == k)
        return pack(which, *check_roundtrips(objs, [("dict", lambda x: x.to_dict(), L.OperationUpdate.from_dict)],
                                            "OperationUpdate"))
    if which == "invocation":
        ops = [o for i, o in enumerate(operations()) if i % 997 == 0][:12]
        ins = []
        for n_ops in (0, 1, 3):
            for marker in ("", "m1"):
                st = E.InitialExecutionState(operations=ops[:n_ops], next_marker=marker)
                ins.append(E.DurableExecutionInvocationInput("arn:x", "tok", st))
        n1, v1, s1 = check_roundtrips(ins, [
            ("dict", lambda x: x.to_dict(), E.DurableExecutionInvocationInput.from_dict),
            ("json", lambda x: x.to_json_dict(), E.DurableExecutionInvocationInput.from_json_dict)],
            "DurableExecutionInvocationInput")
        outs = [E.DurableExecutionInvocationOutput(s, r, e) for s in E.InvocationStatus
                for r in (None, "", "res") for e in few_errors()]
        n2, v2, s2 = check_roundtrips(outs, [("dict", lambda x: x.to_dict(), E.DurableExecutionInvocationOutput.from_dict)],
                                      "DurableExecutionInvocationOutput")
        return pack(which, n1 + n2, v1 + v2, s1 + s2)
    if which == "factories":
        return pack(which, *check_factories())
    if which == "millis":
        lo, hi = arg[1], arg[2]
        return pack(which, *check_millis(lo, hi, arg[3]))
    if which == "tz":
        # the process-local time zone must not matter (a function may be configured with TZ)
        import os
        import time as _real_time
        old = os.environ.get("TZ")
        os.environ["TZ"] = arg[1]
        _real_time.tzset()
        try:
            n1, v1, s1 = check_millis(1_700_000_000_000, 1_700_000_003_000, True)
            n0, v0, s0 = check_millis(0, 2_000, False)
            objs = [o for i, o in enumerate(operations()) if i % 211 == 0]
            n2, v2, s2 = check_roundtrips(objs, [
                ("dict", lambda x: x.to_dict(), L.Operation.from_dict),
                ("json", lambda x: x.to_json_dict(), L.Operation.from_json_dict)], "Operation")
        finally:
            if old is None:
                os.environ.pop("TZ", None)
            else:
                os.environ["TZ"] = old
            _real_time.tzset()
        viol = v0 + v1 + v2
        for v in viol:
            v["sig"] += f"/TZ={arg[1]}"
        return pack(which, n0 + n1 + n2, viol, [f"TZ={arg[1]}"])
    raise ValueError(which)


def pack(which, n, viol, samples):
    for v in viol:
        v["replay"] = {"sig": v["sig"], "family": which}
    return {"which": which, "n": n, "viol": viol, "samples": samples}


def check_factories():
    from aws_durable_execution_sdk_python import lambda_service as L
    from aws_durable_execution_sdk_python.identifier import OperationIdentifier
    viol = {}
    n = 0

    def expect(name, u, want):
        nonlocal n
        n += 1
        w = u.to_dict()
        for path, val in want.items():
            cur = w
            ok = True
            for part in path.split("."):
                if not isinstance(cur, dict) or part not in cur:
                    ok = False
                    break
                cur = cur[part]
            if not ok or cur != val:
                sig = f"C20/factory-wire-form/factory={name}/missing={path}"
                viol.setdefault(sig, {"sig": sig, "msg": f"{name}: wire form {w!r} lacks {path}={val!r}"[:400]})

    ids = [OperationIdentifier("id1", None, None), OperationIdentifier("id2", "par", "nm")]
    err = L.ErrorObject("m", "T", "d", ["s"])
    for i in ids:
        base = {"Id": i.operation_id}
        if i.parent_id:
            base["ParentId"] = i.parent_id
        if i.name:
            base["Name"] = i.name
        for t, h in ((0, 0), (10, 3)):
            expect("create_callback", L.OperationUpdate.create_callback(i, L.CallbackOptions(t, h)),
                   {**base, "Type": "CALLBACK", "Action": "START", "CallbackOptions.TimeoutSeconds": t,
                    "CallbackOptions.HeartbeatTimeoutSeconds": h})
        for st in L.OperationSubType:
            expect("create_context_start", L.OperationUpdate.create_context_start(i, st),
                   {**base, "Type": "CONTEXT", "Action": "START", "SubType": st.value})
            for rc in (False, True):
                expect("create_context_succeed",
                       L.OperationUpdate.create_context_succeed(i, "pay", st, L.ContextOptions(rc)),
                       {**base, "Type": "CONTEXT", "Action": "SUCCEED", "Payload": "pay", "SubType": st.value,
                        "ContextOptions.ReplayChildren": rc})
            expect("create_context_fail", L.OperationUpdate.create_context_fail(i, err, st),
                   {**base, "Type": "CONTEXT", "Action": "FAIL", "Error.ErrorMessage": "m", "Error.ErrorType": "T",
                    "Error.ErrorData": "d", "Error.StackTrace": ["s"]})
        expect("create_step_start", L.OperationUpdate.create_step_start(i), {**base, "Type": "STEP", "Action": "START"})
        expect("create_step_succeed", L.OperationUpdate.create_step_succeed(i, "pay"),
               {**base, "Type": "STEP", "Action": "SUCCEED", "Payload": "pay"})
        expect("create_step_fail", L.OperationUpdate.create_step_fail(i, err),
               {**base, "Type": "STEP", "Action": "FAIL", "Error.ErrorMessage": "m"})
        for d in (1, 30):
            expect("create_step_retry", L.OperationUpdate.create_step_retry(i, err, d),
                   {**base, "Type": "STEP", "Action": "RETRY", "Error.ErrorType": "T",
                    "StepOptions.NextAttemptDelaySeconds": d})
            expect("create_wait_for_condition_retry", L.OperationUpdate.create_wait_for_condition_retry(i, "st", d),
                   {**base, "Type": "STEP", "Action": "RETRY", "Payload": "st", "StepOptions.NextAttemptDelaySeconds": d,
                    "SubType": "WaitForCondition"})
        for fn, ten in (("fn", None), ("fn", "tenant")):
            want = {**base, "Type": "CHAINED_INVOKE", "Action": "START", "Payload": "pay",
                    "ChainedInvokeOptions.FunctionName": fn}
            if ten:
                want["ChainedInvokeOptions.TenantId"] = ten
            expect("create_invoke_start",
                   L.OperationUpdate.create_invoke_start(i, "pay", L.ChainedInvokeOptions(fn, ten)), want)
        expect("create_wait_for_condition_start", L.OperationUpdate.create_wait_for_condition_start(i),
               {**base, "Type": "STEP", "Action": "START", "SubType": "WaitForCondition"})
        expect("create_wait_for_condition_succeed", L.OperationUpdate.create_wait_for_condition_succeed(i, "st"),
               {**base, "Type": "STEP", "Action": "SUCCEED", "Payload": "st"})
        expect("create_wait_for_condition_fail", L.OperationUpdate.create_wait_for_condition_fail(i, err),
               {**base, "Type": "STEP", "Action": "FAIL", "Error.ErrorMessage": "m"})
        for w in (1, 77):
            expect("create_wait_start", L.OperationUpdate.create_wait_start(i, L.WaitOptions(w)),
                   {**base, "Type": "WAIT", "Action": "START", "WaitOptions.WaitSeconds": w})
    expect("create_execution_succeed", L.OperationUpdate.create_execution_succeed("pay"),
           {"Type": "EXECUTION", "Action": "SUCCEED", "Payload": "pay"})
    expect("create_execution_fail", L.OperationUpdate.create_execution_fail(err),
           {"Type": "EXECUTION", "Action": "FAIL", "Error.ErrorMessage": "m", "Error.ErrorType": "T"})
    return n, list(viol.values()), []


def check_millis(lo, hi, sub):
    from aws_durable_execution_sdk_python.lambda_service import TimestampConverter as TC
    viol = {}
    n = 0
    first_bad = None
    for ms in range(lo, hi):
        n += 1
        d = ms_to_dt(ms)
        got = TC.to_unix_millis(d)
        if got != ms:
            sig = "C20/timestamp/to_unix_millis-not-exact-on-millisecond-aligned-datetime"
            if sig not in viol:
                viol[sig] = {"sig": sig, "msg": f"to_unix_millis({d.isoformat()}) = {got}, expected {ms}"}
        back = TC.from_unix_millis(ms)
        if back != d:
            sig = "C20/timestamp/from_unix_millis-not-exact"
            viol.setdefault(sig, {"sig": sig, "msg": f"from_unix_millis({ms}) = {back.isoformat()}, expected {d.isoformat()}"})
        if sub and ms % 97 == 0:
            for us in (1, 499, 500, 999):
                d2 = d + dt.timedelta(microseconds=us)
                g2 = TC.to_unix_millis(d2)
                if g2 != ms:
                    sig = "C20/timestamp/sub-millisecond-not-truncated"
                    viol.setdefault(sig, {"sig": sig, "msg": f"to_unix_millis({d2.isoformat()}) = {g2}, expected {ms}"})
    return n, list(viol.values()), [f"ms {lo}..{hi}"]


def run(ctx):
    quick = ctx.tier == "quick"
    jobs = [("error",), ("options",), ("invocation",), ("factories",)]
    nch = 16
    jobs += [("operation", k, nch) for k in range(nch)]
    jobs += [("update", k, nch) for k in range(nch)]
    span = 100_000 if quick else 2_000_000
    anchors = [0, 1_700_000_000_000, 2 ** 31 * 1000] + [2 ** p for p in range(20, 42, 3 if quick else 1)]
    for a in anchors:
        lo = max(0, a - span // 2)
        step = span // 4
        for s in range(lo, lo + span, step):
            jobs.append(("millis", s, s + step, True))
    jobs += [("tz", z) for z in ("UTC0", "EST5EDT", "IST-5:30", "NZST-12NZDT")]
    res = ctx.pmap(MOD, "chunk", jobs)
    n = sum(r["n"] for r in res)
    by = {}
    viols = []
    samples = []
    for r in res:
        by[r["which"]] = by.get(r["which"], 0) + r["n"]
        viols.extend(r["viol"])
        samples.extend(r["samples"][:1])
    cov = {"states": n, "transitions": 2 * n, "traces_validated_against_impl": n,
           "samples": samples[:6] or ["<none>"], "objects_by_family": by, "exhaustive": True,
           "bounds": "ErrorObject: 3^3 x 3 field combinations; every *Options class over its value alphabet; Operation: "
                     "6 types x 8 statuses x parent/name in {None,'',value} x timestamps x sub-types, every details "
                     "variant (each details class: full product over {None,'',value} / errors / timestamps) on 3 scalar "
                     "bases x 4 statuses, pairwise across details classes, both dict and JSON codecs; OperationUpdate: "
                     "6 types x 5 actions x parent/name/payload in {None,'',value} x errors x sub-types, every options "
                     "variant x all sub-types, option pairs; invocation input/output products; every create_* factory; "
                     "millisecond timestamps: dense windows around 0, 1.7e12, 2^31 s and powers of two up to 2^41 with "
                     "sub-millisecond probes; timestamp windows and a sample of operations again under process time zones "
                     "UTC, EST5EDT, IST-5:30, NZST-12NZDT",
           "explanation": "states = objects/timestamps enumerated; each pushed through to_*/from_* and compared field-wise "
                          "(flattened to path->value, dropping None/''/empty sub-objects, timestamps at millisecond resolution)"}
    return {"coverage": cov, "violations": viols, "internal": [],
            "assumptions": ["an ErrorObject with all fields None and empty detail objects are indistinguishable from absence on the wire"]}


def replay(rep):
    fam = rep["replay"]["family"]
    arg = {"operation": ("operation", 0, 1), "update": ("update", 0, 1)}.get(fam, (fam, 0, 300_000, True) if fam == "millis" else (fam,))
    if fam == "tz":
        tzname = rep["replay"]["sig"].rsplit("/TZ=", 1)[-1]
        hits = [v for v in chunk(("tz", tzname))["viol"] if v["sig"] == rep["replay"]["sig"]]
        return {"violations": [{"sig": v["sig"], "msg": v["msg"]} for v in hits]}
    if fam == "millis":
        out = []
        for a in (0, 1_700_000_000_000):
            out += chunk(("millis", a, a + 200_000, True))["viol"]
        hits = [v for v in out if v["sig"] == rep["replay"]["sig"]]
    else:
        hits = [v for v in chunk(arg)["viol"] if v["sig"] == rep["replay"]["sig"]]
    return {"violations": [{"sig": v["sig"], "msg": v["msg"]} for v in hits]}
