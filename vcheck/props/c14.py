"""C14 - callbacks and invokes: stable identity, faithful outcome, deferred errors.
Space: callback / wait_for_callback / invoke programs in three placements x every backend
outcome x delivery instant (during the creating invocation, while PENDING, after an unrelated
wake-up) x <=1 crash."""
from __future__ import annotations

import json

from vcheck.props import simcheck
from vcheck.sim.backend import TERMINAL, fmt_path
from vcheck.sim.driver import OUTCOMES
from vcheck.sim.monitors import V

OUTS_CB = ["ok", "ok-empty", "ok-none", "fail", "fail-nomsg", "timeout", "cancelled", "stopped", "fail-noerr", "timeout-noerr"]
OUTS_INV = ["ok", "ok-none", "fail", "fail-nomsg", "timeout", "stopped", "fail-noerr", "timeout-noerr", "stopped-noerr"]
CATCH = ["CallbackError", "CallableRuntimeError"]


def T(op):
    return {"k": "try", "catch": CATCH, "body": op}


def programs():
    out = []
    betweens = {"none": [], "step": [{"k": "step", "fn": {"ret": "mid"}}], "log": [{"k": "log", "label": "between"}],
                "wait": [{"k": "wait", "s": 1}]}
    units = {}
    for bn, b in betweens.items():
        units[f"cb[{bn}]"] = ("cb", [T({"k": "cb", "between": b})])
    units["cb[timeout3]"] = ("cb", [T({"k": "cb", "timeout": 3})])
    units["cb[custom-serdes]"] = ("cb", [T({"k": "cb", "serdes": "prefix"})])
    units["wfcb"] = ("wfcb", [T({"k": "wfcb", "submit": {"ret": None}})])
    units["wfcb[submit-fails-once]"] = ("wfcb", [T({"k": "wfcb", "submit": {"fail": 1}, "retry": {"table": [1, "no"]}})])
    units["invoke"] = ("invoke", [T({"k": "invoke", "fn": "target-fn", "payload": {"x": [1, "a", None]}})])
    units["invoke[timeout3]"] = ("invoke", [T({"k": "invoke", "fn": "target-fn", "payload": "p", "timeout": 3})])
    # only the payload serializer is configured: the result is still decoded with the default one
    units["invoke[payload-serdes-only]"] = ("invoke", [T({"k": "invoke", "fn": "target-fn", "payload": {"k": 1}, "serdes_payload": "prefix"})])
    units["invoke[tenant]"] = ("invoke", [T({"k": "invoke", "fn": "other-fn", "payload": 7, "tenant": "t-1"})])
    for name, (kind, seq) in units.items():
        tail = [{"k": "step", "fn": {"ret": "after"}}]
        out.append({"name": name, "meta": {"kind": kind, "place": "top", "path": [1]}, "seq": seq + tail})
        if name in ("cb[none]", "cb[step]", "wfcb", "invoke", "invoke[timeout3]"):
            out.append({"name": f"child[{name}]", "meta": {"kind": kind, "place": "child", "path": [1, 1]},
                        "seq": [{"k": "child", "body": seq}] + tail})
            out.append({"name": f"par[{name},slow]", "meta": {"kind": kind, "place": "branch", "path": [1, "b0", 1]},
                        "seq": [{"k": "par", "cfg": {"cc": "all_completed"},
                                 "branches": [seq, [{"k": "step", "fn": {"sleep": 4, "then": {"ret": "s"}}}]]}] + tail})
    # an unrelated wake-up before the external completes
    out.append({"name": "par[cb,wait2]", "meta": {"kind": "cb", "place": "branch", "path": [1, "b0", 1]},
                "seq": [{"k": "par", "cfg": {"cc": "all_completed"}, "branches": [[T({"k": "cb"})], [{"k": "wait", "s": 2}]]}]})
    out.append({"name": "par[invoke,wait2]", "meta": {"kind": "invoke", "place": "branch", "path": [1, "b0", 1]},
                "seq": [{"k": "par", "cfg": {"cc": "all_completed"}, "branches": [[T({"k": "invoke", "payload": 1})], [{"k": "wait", "s": 2}]]}]})
    return out


def judge(d, _=None):
    out = []
    m = d.program["meta"]
    kind = m["kind"]
    base = tuple(m["path"])
    be, w = d.backend, d.world
    payload_cfg = d.cfg["ext_payload"]
    if kind in ("cb", "wfcb"):
        cpath = base if kind == "cb" else base + (1,)
        row = be.row_at(cpath)
        issued = (row.get("CallbackDetails") or {}).get("CallbackId") if row else None
        seen = [c for c in w.cbids if c["path"] == cpath]
        for c in seen:
            if c["id"] != issued:
                V(out, "C14", "callback-id-not-the-backend-issued-one",
                  f"{d.program['name']}: user code saw callback id {c['id']!r} in invocation {c['inv']}, backend issued {issued!r}",
                  via=c.get("via", "create_callback"))
        # create_callback never raises because of the outcome
        for o in w.obs:
            if o["path"] == cpath and o["op"] == "create_callback" and o["kind"] == "exc":
                V(out, "C14", "create_callback-raised", f"{d.program['name']}: create_callback raised {o['r']} "
                  f"(backend row {o['row_status']})", row=str(o["row_status"]))
        # result(): faithful
        rpath = cpath + ("result",) if kind == "cb" else None
        results = [o for o in w.obs if (o["path"] == rpath if kind == "cb" else (o["path"] == base and o["op"] == "wait_for_callback"))]
        for o in results:
            st = o["row_status"] if kind == "cb" else be.status_at(cpath)
            if o["kind"] == "abort":
                if kind == "cb" and o["row_status"] in TERMINAL:
                    V(out, "C14", "result-suspended-although-completed",
                      f"{d.program['name']}: result() suspended while the callback row was {o['row_status']}")
                continue
            if kind == "wfcb":
                # row status at the time of delivery is what matters; look it up from the log
                st = _status_at(be, cpath, o["tick"])
            if st == "STARTED" or st is None:
                if o["kind"] in ("ret", "exc"):
                    V(out, "C14", "result-delivered-while-outstanding",
                      f"{d.program['name']}: result delivered {o['r']} while the callback was {st}", got=o["kind"])
                continue
            det = (be.row_at(cpath).get("CallbackDetails") or {})
            if st == "SUCCEEDED":
                raw = det.get("Result")
                serdes = _serdes_of(d.program, "cb") 
                want = _expected_cb_value(raw, serdes)
                if want is None:
                    continue
                if o["kind"] != "ret" or o["r"] != want:
                    V(out, "C14", "callback-result-not-the-delivered-payload",
                      f"{d.program['name']}: payload {raw!r} delivered as {o['kind']} {o['r']} (expected {want})",
                      payload="none" if raw is None else ("empty" if raw == "" else "value"))
            else:
                # result() must raise a callback error; wait_for_callback (a child context around
                # create_callback + result()) is only required to raise
                ok = o["kind"] == "exc" and (kind == "wfcb" or o["r"].startswith("exc:CallbackError:"))
                if not ok:
                    V(out, "C14", "callback-failure-not-raised-as-callback-error",
                      f"{d.program['name']}: callback {st} but result delivered {o['kind']} {o['r']}", status=st)
    else:
        row = be.row_at(base)
        starts = [r for r in be.log if r["path"] == base and not r.get("external") and r["u"]["Action"] == "START"]
        if len(starts) > 1:
            V(out, "C14", "invoke-started-more-than-once", f"{d.program['name']}: {len(starts)} START records for the invoke")
        op = _find_op(d.program["seq"], "invoke")
        if starts:
            u = starts[0]["u"]
            want_payload = json.dumps(_dec(op.get("payload")))
            if op.get("serdes_payload") == "prefix":
                want_payload = "PFX" + want_payload
            if u.get("Payload") != want_payload:
                V(out, "C14", "invoke-payload-not-the-serialized-input",
                  f"{d.program['name']}: START carried payload {u.get('Payload')!r}, expected {want_payload!r}")
            opts = u.get("ChainedInvokeOptions") or {}
            if opts.get("FunctionName") != op.get("fn", "target-fn"):
                V(out, "C14", "invoke-target-wrong", f"{d.program['name']}: FunctionName {opts.get('FunctionName')!r}")
            if op.get("tenant") and opts.get("TenantId") != op["tenant"]:
                V(out, "C14", "invoke-tenant-missing", f"{d.program['name']}: options {opts}")
        for o in w.obs:
            if o["path"] != base or o["op"] != "invoke":
                continue
            st = o["row_status"]
            if o["kind"] == "abort":
                if st in TERMINAL:
                    V(out, "C14", "invoke-suspended-although-completed",
                      f"{d.program['name']}: invoke suspended while the row was {st}")
                continue
            if st == "STARTED" or st is None:
                V(out, "C14", "invoke-delivered-while-outstanding", f"{d.program['name']}: delivered {o['r']} while {st}")
                continue
            det = (row.get("ChainedInvokeDetails") or {}) if row else {}
            if st == "SUCCEEDED":
                raw = det.get("Result")
                want = "None" if raw is None else _render_json(raw)
                if o["kind"] != "ret" or o["r"] != want:
                    V(out, "C14", "invoke-result-not-the-deserialized-payload",
                      f"{d.program['name']}: result payload {raw!r} delivered as {o['kind']} {o['r']} (expected {want})",
                      payload="none" if raw is None else "value")
            else:
                msg = (det.get("Error") or {}).get("ErrorMessage")
                if o["kind"] != "exc":
                    V(out, "C14", "invoke-failure-not-raised", f"{d.program['name']}: invoke {st} but returned {o['r']}", status=st)
                elif not o["r"].startswith("exc:CallableRuntimeError:"):
                    V(out, "C14", "invoke-failure-raised-as-another-exception",
                      f"{d.program['name']}: invoke {st} (error object: {det.get('Error')}) raised {o['r']} instead of the SDK's "
                      f"callable error", status=st, got=o["r"].split(":")[1])
                elif msg and not o["r"].endswith(":" + msg):
                    V(out, "C14", "invoke-error-message-lost",
                      f"{d.program['name']}: invoke {st} with message {msg!r} raised {o['r']}", status=st)
    return out


def _status_at(be, path, tick):
    st = None
    for r in be.log:
        if r["path"] == path and r["tick"] <= tick:
            st = r["after"]
    return st


def _find_op(seq, k):
    for op in seq:
        if op.get("k") == k:
            return op
        for key in ("body",):
            b = op.get(key)
            if isinstance(b, dict):
                r = _find_op([b], k)
                if r:
                    return r
            elif isinstance(b, list):
                r = _find_op(b, k)
                if r:
                    return r
        for b in op.get("branches", []):
            r = _find_op(b, k)
            if r:
                return r
    return None


def _serdes_of(prog, k):
    op = _find_op(prog["seq"], "cb") or _find_op(prog["seq"], "wfcb") or {}
    return op.get("serdes")


def _dec(v):
    from vcheck.sim.dsl import dec
    return dec(v)


def _render_json(raw):
    from vcheck.sim.dsl import render
    return render(json.loads(raw))


def _expected_cb_value(raw, serdes):
    from vcheck.sim.dsl import render
    if raw is None:
        return "None"
    if serdes == "prefix":
        if raw.startswith("PFX"):
            return render(json.loads(raw[3:]))
        return None  # payload not in the custom format: any outcome of decoding is accepted
    return render(raw)


def space(tier):
    quick = tier == "quick"
    cap = 30_000 if quick else 600_000
    units = []
    for p in programs():
        kind = p["meta"]["kind"]
        outs = OUTS_INV if kind == "invoke" else OUTS_CB
        cfg = {"env_kinds": ["deliver", "early"], "deliver_outcomes": outs, "early_outcomes": outs, "spurious": True}
        if "custom-serdes" in p["name"]:
            cfg["ext_payload"] = 'PFX{"k": [1, "v"]}'
        units.append(({"program": p, "cfg": cfg}, {"deliver": 2, "early": 1, "total": 2} if quick else {"deliver": 3, "early": 1, "total": 3}, cap))
        cfg2 = {"env_kinds": ["deliver", "crash"], "deliver_outcomes": ["ok", "fail", "timeout"] if not quick else ["ok", "fail"]}
        units.append(({"program": p, "cfg": cfg2}, {"deliver": 1, "crash": 1, "total": 2}, cap))
        # paginated checkpoint responses (the backend-issued callback id / STARTED invoke arrives on a later page)
        cfg3 = {"env_kinds": ["deliver"], "deliver_outcomes": ["ok", "fail"], "page_modes": [4]}
        for pol in ("rtb", "low", "high"):
            units.append(({"program": p, "cfg": dict(cfg3, policy=pol)}, {"deliver": 1, "total": 1}, cap))
        if p["meta"]["place"] == "branch":
            for pol in ("low", "high"):
                units.append(({"program": p, "cfg": dict(cfg, policy=pol)}, {"deliver": 1, "early": 1, "total": 1}, cap))
    return units


simcheck.install(globals(), "C14", [judge], space,
                 "create_callback with {nothing, step, log, wait} between creation and result(), with timeout, with a custom "
                 "SerDes; wait_for_callback (also with a submitter that fails once); invoke (default, with timeout, with "
                 "tenant) at top level, in a child context and in a parallel branch next to a running or waiting sibling; "
                 "backend outcomes {success with payload / empty / none, failed with/without message / without any error object, timed out, cancelled, "
                 "stopped}; delivered during the creating invocation (at the START call or a later call), while PENDING, "
                 "or after a spurious/unrelated wake-up; combined with every single crash point; paginated checkpoint responses under "
                 "three scheduler policies")
