"""C07 - suspension is sound and live.  Space: programs mixing waits, retries, callbacks,
invokes and wait_for_condition at top level and inside parallel/map branches, with branch
user functions of different (virtual) durations, all delivery orders, <=1 crash, policies."""
from __future__ import annotations

import itertools

from vcheck.props import simcheck
from vcheck.sim import monitors, programs as P

# branch bodies
B = {
    "w2": [{"k": "wait", "s": 2}],
    "w1s": [{"k": "wait", "s": 1}, {"k": "step", "fn": {"ret": "aw"}}],
    "s0": [{"k": "step", "fn": {"ret": "q"}}],
    "s2": [{"k": "step", "fn": {"sleep": 2, "then": {"ret": "m"}}}],
    "s5": [{"k": "step", "fn": {"sleep": 5, "then": {"ret": "slow"}}}],
    "s5w": [{"k": "step", "fn": {"sleep": 5, "then": {"ret": "slow"}}}, {"k": "wait", "s": 1}],
    "cb": [{"k": "cb"}],
    "inv": [{"k": "invoke", "payload": 1}],
    "invt": [{"k": "invoke", "payload": 1, "timeout": 3}],
    "wfc": [{"k": "wfc", "init": 0, "decide": [{"cont": 1}, "stop"]}],
    "wfc0": [{"k": "wfc", "init": 0, "decide": [{"cont": 0}, "stop"]}],
    "rt": [{"k": "step", "fn": {"fail": 1, "then": {"ret": "r"}}, "retry": {"table": [2, "no"]}}],
    "rt0": [{"k": "step", "fn": {"fail": 1, "then": {"ret": "r"}}, "retry": {"table": [0, "no"]}}],
    "k": [{"k": "wfcb"}],
}


def par(names, cfg=None, kind="par"):
    op = {"k": "par", "branches": [__import__("copy").deepcopy(B[n]) for n in names]}
    op["cfg"] = cfg or {"cc": "all_completed"}
    return op


def programs(tier):
    quick = tier == "quick"
    out = []
    top = ["W", "R", "C", "I", "N", "K"]
    for a, b in itertools.product(top, repeat=2):
        out.append(("top", P.program((a, b))))
    names = list(B)
    pairs = list(itertools.combinations_with_replacement(names, 2))
    for a, b in pairs:
        out.append(("par2", {"name": f"par[{a},{b}]", "seq": [par([a, b])]}))
    triples = [("w2", "s5", "cb"), ("s2", "w1s", "rt"), ("s5w", "w2", "s0"), ("wfc", "inv", "w2"), ("s5", "s5w", "w1s"),
               ("rt0", "wfc0", "s2"), ("k", "w2", "s5")]
    for t in triples:
        out.append(("par3", {"name": f"par[{','.join(t)}]", "seq": [par(list(t))]}))
    # nesting 2
    out.append(("nest", {"name": "par[par[w2,s5],cb]", "seq": [{"k": "par", "cfg": {"cc": "all_completed"}, "branches": [
        [par(["w2", "s5"])], B["cb"]]}]}))
    out.append(("nest", {"name": "child[par[w1s,s2]]+W", "seq": [{"k": "child", "body": [par(["w1s", "s2"])]}, {"k": "wait", "s": 1}]}))
    out.append(("nest", {"name": "map[2:w1s]", "seq": [{"k": "map", "items": [1, 2], "body": B["w1s"], "cfg": {"cc": "all_completed"}}]}))
    out.append(("nest", {"name": "map[3:s2,maxc2]", "seq": [{"k": "map", "items": [1, 2, 3], "body": B["s2"], "cfg": {"cc": "all_completed", "maxc": 2}}]}))
    out.append(("nest", {"name": "par[w2,s5]maxc1", "seq": [par(["w2", "s5"], {"cc": "all_completed", "maxc": 1})]}))
    out.append(("nest", {"name": "par[w2,w2]default-cfg", "seq": [{"k": "par", "branches": [B["w2"], B["w2"]]}]}))
    # a timed-suspended branch becomes due while its sibling parks: the sibling's function runs d seconds, d on a grid
    # around the branch's wake-up time (the refresh checkpoint of the resubmission is in flight for part of it)
    for d in (0.8, 0.9, 1.0, 1.1, 1.2, 1.3, 1.4):
        for park in ("cb", "w2"):
            sib = [{"k": "step", "fn": {"sleep": d, "then": {"ret": "sib"}}}] + __import__("copy").deepcopy(B[park])
            out.append(("grid", {"name": f"par[w1s,s{d}.{park}]", "seq": [
                {"k": "par", "cfg": {"cc": "all_completed"}, "branches": [__import__("copy").deepcopy(B["w1s"]), sib]}]}))
    # degenerate shapes
    out.append(("degen", {"name": "par[]", "seq": [{"k": "par", "branches": [], "cfg": {"cc": "all_completed"}}]}))
    out.append(("degen", {"name": "par[]maxc2", "seq": [{"k": "par", "branches": [], "cfg": {"cc": "all_completed", "maxc": 2}}]}))
    out.append(("degen", {"name": "map[0]", "seq": [{"k": "map", "items": [], "body": B["s0"]}]}))
    out.append(("degen", {"name": "map[0]maxc2", "seq": [{"k": "map", "items": [], "body": B["s0"], "cfg": {"maxc": 2}}]}))
    out.append(("degen", {"name": "W1", "seq": P.U("W1")}))
    return out


def space(tier):
    quick = tier == "quick"
    cap = 30_000 if quick else 600_000
    units = []
    import aws_durable_execution_sdk_python.concurrency.executor as _exm
    line_names = ("par[w2,s2]", "par[w1s,s2]", "par[s2,cb]", "par[wfc,rt]", "map[3:s2,maxc2]", "par[w1s,w1s]", "par[s0,s0]")
    for kind, p in programs(tier):
        if p["name"] in line_names:
            units.append(({"program": p, "cfg": {"env_kinds": [], "line_files": [_exm.__file__], "grace": 1.0}},
                          {"thread": 1, "total": 1}, cap))
    # lost wake-ups: up to two stalls (a runnable thread loses the CPU for 250 ms while the others go on) placed at
    # signalling operations (Event.set/clear, Condition.notify, Queue.put, Future.set_result, Semaphore.release)
    for kind, p in programs(tier):
        if kind == "grid" and (not quick or ".cb" in p["name"]):
            for lat in ((0.0,) if quick else (0.0, 0.3)):
                units.append(({"program": p, "cfg": {"env_kinds": [], "grace": 1.0, "api_latency": lat, "timer_choices": False,
                                                     "stall": [0.25], "stall_ops": ["signal"] if quick else ["signal", "wait"]}},
                              {"stall": 2, "total": 2}, cap))
    # "no single invocation runs forever" also when a checkpoint call fails: records waiting behind the batch size limit
    # (overflow queue) and records queued behind the failing call
    for nm, seq in (("S[800KB]+S", [{"k": "step", "fn": {"bytes": 800_000}}, {"k": "step", "fn": {"ret": 2}}]),
                    ("par[S[400KB]|S[400KB]|W]", [{"k": "par", "cfg": {"cc": "all_completed"}, "branches": [
                        [{"k": "step", "fn": {"bytes": 400_000}}], [{"k": "step", "fn": {"bytes": 400_000}}], [{"k": "wait", "s": 1}]]}]),
                    ("W+S", [{"k": "wait", "s": 1}, {"k": "step", "fn": {"ret": 1}}])):
        units.append(({"program": {"name": nm, "seq": seq}, "cfg": {"env_kinds": ["fault"], "faults": ["5xx", "4xx"]}},
                      {"fault": 1, "total": 1}, cap))
    # an at-most-once step interrupted by a crash whose retry strategy declines: the execution still ends (FAILED), it is
    # not re-driven forever
    for rn, retry in (("none", "none"), ("only-boom", {"table": [1, "no"], "only": ["Boom"]})):
        for tail in ([], [{"k": "wait", "s": 1}]):
            p = {"name": f"most[{rn}]" + ("+W" if tail else ""), "seq": [{"k": "step", "sem": "most", "fn": {"ret": "v"}, "retry": retry}] + tail}
            units.append(({"program": p, "cfg": {"env_kinds": ["crash"]}}, {"crash": 2, "total": 2}, cap))
    for kind, p in programs(tier):
        base = {"env_kinds": ["deliver"], "spurious": True}
        if kind == "grid":
            for lat in (0.0, 0.3):
                for pol in ("rtb", "low", "high"):
                    units.append(({"program": p, "cfg": {"env_kinds": [], "policy": pol, "grace": 1.0, "api_latency": lat,
                                                         "timer_choices": False}},
                                  {"thread": 1, "total": 1} if (pol == "rtb" or not quick) else {"total": 0}, cap))
            continue
        units.append(({"program": p, "cfg": dict(base, grace=1.0 if kind != "top" else 0.0)}, {"deliver": 9, "total": 9}, cap))
        if kind in ("top", "par2", "nest", "degen"):
            units.append(({"program": p, "cfg": {"env_kinds": ["crash"]}}, {"crash": 1, "total": 1}, cap))
        if kind != "top":
            for pol in ("low", "high"):
                units.append(({"program": p, "cfg": {"env_kinds": [], "policy": pol}}, {"total": 0}, cap))
            units.append(({"program": p, "cfg": {"env_kinds": [], "timer_choices": True}},
                          {"thread": 1, "timer": 1, "total": 1}, cap))
        if not quick and kind in ("par2", "nest"):
            units.append(({"program": p, "cfg": {"env_kinds": ["crash"]}}, {"crash": 2, "total": 2}, cap))
    return units


simcheck.install(globals(), "C07", [monitors.judge_c07], space,
                 "programs: all ordered pairs over {wait, retrying step, callback, invoke, wait_for_condition, "
                 "wait_for_callback} at top level; every 2-branch parallel over 14 branch bodies (waits, steps whose "
                 "functions run 0/2/5 virtual seconds, callback, invoke with/without timeout, wait_for_condition with "
                 "delay 1/0, retrying step with delay 2/0, wait_for_callback); 7 three-branch shapes; nesting 2; "
                 "max_concurrency; zero branches/items; one preemption at any line of concurrency/executor.py on 7 shapes; a 14-program grid in which a sibling parks 0.8..1.4 s after start while a 1 s "
                 "timed-suspended branch becomes due (with 0 and 300 ms API latency, one preemption; and with <=2 stalls of 250 ms at signalling operations); threads keep running for "
                 "1 virtual second after the wrapper returned so that work started after PENDING is seen; all delivery orders of timers/callbacks/invokes incl. one "
                 "spurious re-invocation; three programs (incl. records above the batch size limit) with every checkpoint call failing; every single crash point; policies rtb/low/high; +1 scheduling/timer deviation")
