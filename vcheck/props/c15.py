"""C15 - default serialization round-trips every accepted value exactly (E3: bounded
exhaustive enumeration of the type grammar over an adversarial leaf alphabet)."""
from __future__ import annotations

import datetime as dt
import decimal
import itertools
import json
import math
import uuid

MOD = "vcheck.props.c15"
D = decimal.Decimal
UTC = dt.timezone.utc


def leaves():
    ist = dt.timezone(dt.timedelta(hours=5, minutes=30))
    odd = dt.timezone(dt.timedelta(hours=-3, minutes=-7, seconds=-30))
    return [
        None, True, False, 0, 1, -1, 2 ** 53 + 1, 10 ** 30, -(2 ** 64),
        0.0, -0.0, 1.5, 1e308, 5e-324, float("nan"), float("inf"), float("-inf"), 1e22,
        "", "a", "t", "v", "é", "\ud800", '{"t":"i","v":5}', "null", "NaN", "\x00", "line\nbreak",
        b"", b"\x00\xff", b"abc",
        uuid.UUID("12345678-1234-5678-1234-567812345678"),
        D("1.10"), D("NaN"), D("-0"), D("1E+3"), D("Infinity"),
        dt.datetime(2024, 1, 2, 3, 4, 5, 678901), dt.datetime(2024, 1, 2, 3, 4, 5, 678901, tzinfo=UTC),
        dt.datetime(2024, 1, 2, 3, 4, 5, tzinfo=ist), dt.datetime(1, 1, 1), dt.datetime(9999, 12, 31, 23, 59, 59, 999999),
        dt.datetime(2024, 6, 1, 12, 0, tzinfo=odd),
        dt.date(2024, 2, 29), dt.date(1, 1, 1),
    ]


def reduced_leaves():
    return [None, True, 1, 0.0, -0.0, float("nan"), "", "t", b"\x00", D("1.10"),
            dt.datetime(2024, 1, 2, 3, 4, 5, 678901, tzinfo=UTC), dt.date(2024, 2, 29), 2 ** 53 + 1]


KEYS = ["a", "t", "v", "", "0"]
TAGS = ["n", "s", "i", "f", "b", "B", "u", "d", "dt", "D", "t", "l", "m", "br", "zz", 1, None]


def containers(elems, with_batch=True):
    """All containers of length <=2 over elems."""
    from aws_durable_execution_sdk_python.concurrency.models import (
        BatchItem, BatchItemStatus, BatchResult, CompletionReason)
    from aws_durable_execution_sdk_python.lambda_service import ErrorObject
    elems = list(elems)
    yield []
    yield ()
    yield {}
    for e in elems:
        yield [e]
        yield (e,)
        for k in KEYS:
            yield {k: e}
    for a, b in itertools.product(elems, repeat=2):
        yield [a, b]
        yield (a, b)
    for (k1, k2) in (("a", "t"), ("t", "v"), ("v", "t"), ("", "0")):
        for a, b in itertools.product(elems, repeat=2):
            yield {k1: a, k2: b}
    if with_batch:
        err = ErrorObject("boom", "Boom", None, None)
        err2 = ErrorObject("m", "T", "data", ["l1", "l2"])
        yield BatchResult([], CompletionReason.ALL_COMPLETED)
        for e in elems:
            yield BatchResult([BatchItem(0, BatchItemStatus.SUCCEEDED, e)], CompletionReason.ALL_COMPLETED)
            yield BatchResult([BatchItem(0, BatchItemStatus.SUCCEEDED, e), BatchItem(1, BatchItemStatus.FAILED, None, err)],
                              CompletionReason.FAILURE_TOLERANCE_EXCEEDED)
            yield BatchResult([BatchItem(0, BatchItemStatus.STARTED), BatchItem(1, BatchItemStatus.SUCCEEDED, e),
                               ], CompletionReason.MIN_SUCCESSFUL_REACHED)
        yield BatchResult([BatchItem(0, BatchItemStatus.FAILED, None, err2)], CompletionReason.ALL_COMPLETED)
        # error objects whose fields are empty but not None (a bare `raise ValueError()` gives message "").  An error
        # object with *every* field None is left out: it is indistinguishable from "no error" by design (cf. C20).
        for eo in (ErrorObject("", "ValueError", None, None), ErrorObject("", "", "", []),
                   ErrorObject("m", None, "", None), ErrorObject(None, "T", None, [])):
            yield BatchResult([BatchItem(0, BatchItemStatus.FAILED, None, eo), BatchItem(1, BatchItemStatus.SUCCEEDED, 1)],
                              CompletionReason.FAILURE_TOLERANCE_EXCEEDED)


def lookalikes(elems):
    for tag in TAGS:
        for e in elems:
            yield {"t": tag, "v": e}
            yield [{"t": tag, "v": e}]
            yield {"x": {"t": tag, "v": e}}
            yield ({"t": tag, "v": e},)
            yield {"t": tag, "v": e, "w": 1}
        yield {"t": tag}
        yield {"v": tag}


def rejection_alphabet():
    class Obj:
        pass
    return [
        {1: "a"}, {True: "a"}, {None: "a"}, {1.5: "a"}, {(1, 2): "a"}, {b"k": "a"}, {1: "a", "1": "b"},
        [{2: [1]}], ({0: None},), [{1: "a"}], [{"a": 1}, {2: "b"}], [{None: 1}], [{1.5: "x"}], [{True: 1}], [[{1: "a"}]],
        [{"k": [1, 2]}, {3: []}], [1, "s", {4: 5}], [{"a": {6: 7}}], {"a": {3: 4}}, {dt.date(2024, 1, 1): 1}, {D("1"): 1},
        {1, 2}, frozenset([1]), Obj(), [Obj()], {"a": Obj()}, 1 + 2j, [1j], range(3), (x for x in [1]),
        10 ** 5000, [10 ** 5000], {"a": -(10 ** 5000)},
    ]


def same(a, b):
    """Typed deep equality (NaN-aware, sign-of-zero aware)."""
    from aws_durable_execution_sdk_python.concurrency.models import BatchResult
    if type(a) is not type(b):
        return False
    if a is None:
        return True
    if isinstance(a, float):
        if math.isnan(a) or math.isnan(b):
            return math.isnan(a) and math.isnan(b)
        return a == b and math.copysign(1, a) == math.copysign(1, b)
    if isinstance(a, D):
        return a.as_tuple() == b.as_tuple()
    if isinstance(a, dt.datetime):
        return a == b and a.utcoffset() == b.utcoffset() and (a.tzinfo is None) == (b.tzinfo is None) \
            and a.replace(tzinfo=None) == b.replace(tzinfo=None)
    if isinstance(a, (list, tuple)):
        return len(a) == len(b) and all(same(x, y) for x, y in zip(a, b))
    if isinstance(a, dict):
        if len(a) != len(b):
            return False
        for (ka, va), (kb, vb) in zip(a.items(), b.items()):
            if not same(ka, kb) or not same(va, vb):
                return False
        return True
    if isinstance(a, BatchResult):
        if a.completion_reason is not b.completion_reason or len(a.all) != len(b.all):
            return False
        for x, y in zip(a.all, b.all):
            if x.index != y.index or x.status is not y.status or not same(x.result, y.result):
                return False
            if (x.error is None) != (y.error is None):
                return False
            if x.error is not None and (x.error.message, x.error.type, x.error.data, x.error.stack_trace) != (
                    y.error.message, y.error.type, y.error.data, y.error.stack_trace):
                return False
        return True
    return a == b


def shape(v, depth=0):
    from aws_durable_execution_sdk_python.concurrency.models import BatchResult
    if isinstance(v, (list, tuple)):
        return type(v).__name__[0] + "(" + ",".join(shape(e, depth + 1) for e in v) + ")"
    if isinstance(v, dict):
        return "d(" + ",".join(f"{k!r:.6}:{shape(e, depth + 1)}" for k, e in v.items()) + ")"
    if isinstance(v, BatchResult):
        return "br(" + ",".join(shape(i.result) for i in v.all) + ")"
    return type(v).__name__


def brief(v):
    try:
        r = repr(v)
    except ValueError:
        r = f"<{type(v).__name__} with unprintable (huge) content>"
    return r if len(r) < 160 else r[:150] + "..."


def check_values(values, accepted=True, origin=None):
    """Push every value through both public paths. Returns (n, rejected, shapes, violations)."""
    from aws_durable_execution_sdk_python.exceptions import ExecutionError, SerDesError
    from aws_durable_execution_sdk_python.serdes import ExtendedTypeSerDes, deserialize, serialize
    ext = ExtendedTypeSerDes()
    n = rejected = 0
    shapes = set()
    viol = {}
    samples = []

    def V(clause, msg, **feat):
        f = "/".join(f"{k}={x}" for k, x in sorted(feat.items()))
        sig = f"C15/{clause}" + ("/" + f if f else "")
        if sig not in viol:
            viol[sig] = {"sig": sig, "msg": msg, "replay": {"origin": origin, "sig": sig}}

    for v in values:
        n += 1
        shapes.add(shape(v))
        if len(samples) < 3 and n % 9973 == 1:
            samples.append(brief(v))
        for path in ("module", "class"):
            try:
                s = serialize(None, v, "op", "arn") if path == "module" else ext.serialize(v)
            except (ExecutionError, SerDesError):
                rejected += 1
                if accepted:
                    V("accepted-value-rejected", f"{path}: serializer rejected {brief(v)}", kind=kind_of_value(v))
                continue
            except Exception as e:  # noqa: BLE001 - any error is a rejection, not a silent alteration
                rejected += 1
                if accepted:
                    V("accepted-value-rejected", f"{path}: {type(e).__name__}: {e} for {brief(v)}", kind=kind_of_value(v))
                continue
            if not isinstance(s, str):
                V("serialized-form-not-str", f"{path}: {type(s).__name__} for {brief(v)}")
                continue
            try:
                json.loads(s)
            except Exception:  # noqa: BLE001
                V("serialized-form-not-json", f"{path}: {s[:80]!r} for {brief(v)}")
            try:
                back = deserialize(None, s, "op", "arn") if path == "module" else ext.deserialize(s)
            except Exception as e:  # noqa: BLE001
                V("cannot-deserialize-own-output", f"{path}: {type(e).__name__}: {e} for {brief(v)} -> {s[:100]!r}",
                  kind=kind_of_value(v))
                continue
            if not same(v, back):
                V("silently-altered", f"{path}: {brief(v)} came back as {brief(back)} (serialized {s[:120]!r})",
                  kind=kind_of_value(v))
                continue
            # a decoded value belongs to its caller: changing it must not change what the next
            # deserialization of the same text returns
            if _mutate(back):
                try:
                    again = deserialize(None, s, "op2", "arn") if path == "module" else ext.deserialize(s)
                except Exception as e:  # noqa: BLE001
                    V("cannot-deserialize-own-output", f"{path}: second decode {type(e).__name__}: {e}", kind="second-decode")
                    continue
                if not same(v, again):
                    V("decoded-values-share-state", f"{path}: after mutating one decoded copy of {brief(v)}, the next "
                      f"deserialization of the same text returned {brief(again)}", kind=type(v).__name__)
    return n, rejected, shapes, list(viol.values()), samples


def _mutate(x):
    """Change a decoded container in place (returns False for immutable values)."""
    if isinstance(x, list):
        x.append("<mutated>")
        for e in x[:-1]:
            _mutate(e)
        return True
    if isinstance(x, dict):
        x["<mutated>"] = 1
        return True
    return False


def kind_of_value(v):
    """Feature used in signatures: what about the value makes it special."""
    def walk(x):
        if isinstance(x, dict):
            ks = [k for k in x if not isinstance(k, str)]
            if ks:
                return "dict-key-" + type(ks[0]).__name__
            for e in x.values():
                r = walk(e)
                if r:
                    return r
        elif isinstance(x, (list, tuple)):
            for e in x:
                r = walk(e)
                if r:
                    return r
        elif isinstance(x, (set, frozenset, range, complex, bytearray, memoryview)):
            return type(x).__name__
        elif isinstance(x, int) and not isinstance(x, bool) and abs(x) > 10 ** 4000:
            return "huge-int"
        elif not isinstance(x, (type(None), bool, int, float, str, bytes, uuid.UUID, D, dt.date)):
            from aws_durable_execution_sdk_python.concurrency.models import BatchResult
            if isinstance(x, BatchResult):
                for it in x.all:
                    r = walk(it.result)
                    if r:
                        return r
                return None
            return type(x).__name__ if type(x).__module__ != "builtins" else type(x).__name__
        return None
    return walk(v) or shape(v)[:40]


def gen_chunk(arg):
    """Worker: enumerate one slice of the space and check it."""
    which, k, nchunks, tier = arg
    L = leaves()
    R = reduced_leaves()
    if which == "depth1":
        # ... plus long payloads (> 1 KB and > 64 KB of text): plain lists, nested lists, long strings, wide dicts
        long_vals = [list(range(400)), [list(range(400)), ["x"] * 300], {"k": list(range(400))}, ("y" * 70_000,),
                     ["z" * 2000], {str(i): i for i in range(300)}, [[i, str(i), None, True, 1.5] for i in range(200)]]
        vals = list(L) + list(containers(L)) + long_vals
    elif which == "depth2":
        d1 = list(containers(R, with_batch=True))
        base = [x for i, x in enumerate(d1) if i % nchunks == k]
        vals = containers(base + ([1] if k == 0 else []), with_batch=True)
    elif which == "depth2full":
        d1 = list(containers(L, with_batch=False))
        base = [x for i, x in enumerate(d1) if i % nchunks == k]
        vals = itertools.chain(([x] for x in base), ((x,) for x in base), ({"a": x} for x in base),
                               ({"t": x, "v": x} for x in base), ([x, x] for x in base))
    elif which == "depth3":
        d1 = list(containers(R[:7], with_batch=False))
        d2 = list(containers(d1[:40], with_batch=True))
        base = [x for i, x in enumerate(d2) if i % nchunks == k]
        vals = itertools.chain(([x] for x in base), ((x, 1) for x in base), ({"v": x} for x in base))
    elif which == "lookalike":
        vals = lookalikes(L + list(containers(R[:6], with_batch=False))[:60])
    else:
        raise ValueError(which)
    n, rej, shapes, viol, samples = check_values(vals, accepted=True, origin=list(arg))
    return {"which": which, "n": n, "rejected": rej, "shapes": sorted(shapes)[:5000], "viol": viol, "samples": samples}


def rejection_chunk(_):
    n, rej, shapes, viol, samples = check_values(rejection_alphabet(), accepted=False, origin=["rejection"])
    return {"which": "rejection", "n": n, "rejected": rej, "shapes": sorted(shapes), "viol": viol, "samples": samples}


def run(ctx):
    quick = ctx.tier == "quick"
    jobs = [("depth1", 0, 1, ctx.tier), ("lookalike", 0, 1, ctx.tier)]
    nch = 16
    jobs += [("depth2", k, nch, ctx.tier) for k in range(nch)]
    jobs += [("depth2full", k, nch, ctx.tier) for k in range(nch)]
    if not quick:
        jobs += [("depth3", k, 32, ctx.tier) for k in range(32)]
    res = ctx.pmap(MOD, "gen_chunk", jobs)
    res += ctx.pmap(MOD, "rejection_chunk", [0])
    n = sum(r["n"] for r in res)
    rej = sum(r["rejected"] for r in res)
    shapes = set()
    viols = []
    by = {}
    samples = []
    for r in res:
        shapes |= set(r["shapes"])
        viols.extend(r["viol"])
        by[r["which"]] = by.get(r["which"], 0) + r["n"]
        samples.extend(r["samples"][:1])
    cov = {
        "states": n, "transitions": 4 * n, "traces_validated_against_impl": n,
        "samples": samples[:6] or ["<none>"],
        "distinct_shapes": len(shapes), "rejected_inputs": rej, "values_by_family": by,
        "exhaustive": True,
        "bounds": "leaf alphabet of 47 adversarial values; every list/tuple of length <=2, dict of size <=2 over keys "
                  "{'a','t','v','','0'} and BatchResult of <=2 items: full at depth 1, depth 2 over a 13-leaf reduced alphabet "
                  "and (single-wrap) over the full alphabet, depth 3 over 7 leaves in thorough; every envelope look-alike "
                  "{'t': tag, 'v': x} for 17 tags (valid, unknown, non-string); 26-value rejection alphabet (non-string keys, "
                  "sets, objects, 5000-digit ints, bytearray/memoryview); 7 long payloads (1 KB .. 70 KB of text)",
        "explanation": "states = values enumerated; each is pushed through serialize/deserialize (module functions) and "
                       "ExtendedTypeSerDes (4 function applications) and compared with typed, NaN- and signed-zero-aware equality",
    }
    return {"coverage": cov, "violations": viols, "internal": [],
            "assumptions": ["subclass instances (IntEnum, namedtuple, ...) are outside the stated domain",
                            "bytearray/memoryview (documented by the codec as bytes-like inputs that decode to bytes) are outside the property's listed domain and not enumerated"]}


def replay(rep):
    o = rep["replay"]["origin"]
    r = rejection_chunk(0) if o[0] == "rejection" else gen_chunk(tuple(o))
    hits = [v for v in r["viol"] if v["sig"] == rep["replay"]["sig"]]
    return {"violations": [{"sig": v["sig"], "msg": v["msg"]} for v in hits], "family": o}
