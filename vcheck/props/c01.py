"""C01 - see DESIGN.md section 6/C01.  Space: the standard program corpus x crash points x
pagination modes x scheduler policies (+ scheduling deviations on concurrent shapes)."""
from __future__ import annotations

from vcheck.props import simcheck
from vcheck.sim import monitors, run as simrun

MOD = "vcheck.props.c01"
JUDGES = [monitors.judge_c01]
NEED_BASE = False


def exec_one(unit, prefix, expect=None):
    return simcheck.exec_with(JUDGES, unit, prefix, expect, need_base=NEED_BASE)


def run(ctx):
    from vcheck.props.c02 import mutation_programs
    units = simcheck.standard_space(ctx.tier)
    cap = 20_000 if ctx.tier == "quick" else 400_000
    for p in mutation_programs():
        units.append(({"program": p, "cfg": {"env_kinds": ["crash"]}}, {"crash": 1, "total": 1}, cap))
    # contexts whose recorded failure carries an invocation-error type (raised by user code, or an interrupted at-most-once
    # step): final like any other recorded failure, also on the Lambda retry that follows
    S = {"k": "step", "fn": {"ret": 1}}
    for cls in ("InvocationError", "StepInterruptedError"):
        p = {"name": f"child[S,raise {cls}]+S", "seq": [{"k": "child", "body": [S, {"k": "raise", "cls": cls, "msg": "m"}]}, S]}
        units.append(({"program": p, "cfg": {"env_kinds": ["crash"]}}, {"crash": 1, "total": 1}, cap))
        p = {"name": f"par[raise {cls}|S]+S", "seq": [{"k": "par", "cfg": {"cc": "all_completed"}, "branches": [
            [{"k": "raise", "cls": cls, "msg": "m"}], [S]]}, S]}
        units.append(({"program": p, "cfg": {"env_kinds": ["crash"]}}, {"crash": 1, "total": 1}, cap))
    most = {"k": "step", "sem": "most", "fn": {"ret": "v"}, "retry": "none"}
    for nm, seq in (("child[most-step]+S", [{"k": "child", "body": [most]}, S]),
                    ("try[child[most-step]]+W+S", [{"k": "try", "catch": ["CallableRuntimeError", "StepInterruptedError"],
                                                    "body": {"k": "child", "body": [most]}}, {"k": "wait", "s": 1}, S])):
        units.append(({"program": {"name": nm, "seq": seq}, "cfg": {"env_kinds": ["crash"]}}, {"crash": 2, "total": 2}, cap))
    return simcheck.run_check(ctx, MOD, units, BOUNDS + "; 6 programs whose context fails with an invocation-class error or an "
                              "interrupted at-most-once step; 5 programs whose user code mutates a delivered list/dict in place "
                              "before an equal value is delivered at a later position")


def replay(rep):
    r = rep["replay"]
    unit = {"program": r["program"], "cfg": r["cfg"]}
    res = exec_one(unit, r["prefix"], expect=r.get("options"))
    d = res.info["driver"]
    return {"violations": [{"sig": v["sig"], "msg": v["msg"]} for v in res.violations],
            "internal": res.internal, "summary": d.summary()}


BOUNDS = ("programs: all sequences of <=2 units over 14 unit kinds (step, typed-value step, at-most-once step, "
          "retrying step, caught failing step, wait, callback, callback+step, wait_for_callback, invoke, "
          "wait_for_condition, child[step,wait,step], parallel[2 branches], map[2 items]) and <=3 units over 6 kinds, "
          "plus nested shapes; per program: every single crash point (before/after each backend call, at each user "
          "function entry, after the handler returned) and every pagination mode of each re-invocation (quick: one "
          "deviation; one-unit programs and thorough: two); policies rtb/low/high; +1 scheduling/timer deviation on "
          "concurrent shapes")
