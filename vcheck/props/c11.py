"""C11 - see DESIGN.md section 6/C11.  Space: the standard program corpus x crash points x
pagination modes x scheduler policies (+ scheduling deviations on concurrent shapes)."""
from __future__ import annotations

from vcheck.props import simcheck
from vcheck.sim import monitors, run as simrun

MOD = "vcheck.props.c11"
JUDGES = [monitors.judge_c11]
NEED_BASE = False


def exec_one(unit, prefix, expect=None):
    return simcheck.exec_with(JUDGES, unit, prefix, expect, need_base=NEED_BASE)


def fault_units(tier):
    """The stream must stay a valid history when a checkpoint call is rejected (and Lambda retries)."""
    from vcheck.sim import programs as P
    units = []
    cap = 20_000 if tier == "quick" else 400_000
    long_step = {"name": "Slong", "seq": [{"k": "step", "fn": {"sleep": 1.5, "then": {"ret": "l"}}}, {"k": "step", "fn": {"ret": 2}}]}
    long_child = {"name": "Hlong", "seq": [{"k": "child", "body": [{"k": "step", "fn": {"sleep": 1.5, "then": {"ret": "l"}}}]}]}
    progs = [long_step, long_child] + [P.program(n) for n in (("S", "S"), ("H",), ("W", "S"), ("P",), ("Sd",), ("N",), ("C", "S"))]
    for p in progs:
        for lat in (0.0, 0.05):
            units.append(({"program": p, "cfg": {"env_kinds": ["fault"], "faults": ["5xx", "429", "4xx"], "api_latency": lat}},
                          {"fault": 1, "total": 1} if tier == "quick" else {"fault": 2, "total": 2}, cap))
    return units


def boundary_units(tier):
    """A batch that fills up to within a few bytes of the 750 KB size limit right before a context START and its
    child's (shorter) START arrive: the space left is scanned in 6-byte steps across both records' sizes."""
    units = []
    for x in range(383_540, 383_720, 3):
        big = lambda: [{"k": "step", "fn": {"sleep": 0.2, "then": {"bytes": x}}}]  # noqa: E731
        p = {"name": f"batch-boundary[2x{x}]", "seq": [{"k": "par", "cfg": {"cc": "all_completed"}, "branches": [
            big(), big(), [{"k": "sleep", "d": 0.25}, {"k": "child", "body": [{"k": "step", "fn": {"ret": 1}}]}]]}]}
        units.append(({"program": p, "cfg": {"env_kinds": []}}, {"total": 0}, 10))
    return units


def nested_resume_units(tier):
    """An inner parallel (a timed-suspended branch next to a sibling that finishes d seconds after start, d on a grid
    around the wake-up time and the 300 ms refresh call of the resumption) inside an outer parallel that stays alive."""
    units = []
    ac = {"cc": "all_completed"}
    for d in (0.8, 0.9, 1.0, 1.1, 1.2, 1.3, 1.4, 1.5):
        inner = {"k": "par", "cfg": ac, "branches": [
            [{"k": "wait", "s": 1}, {"k": "step", "fn": {"ret": "after-wait"}}, {"k": "step", "fn": {"ret": "after-wait-2"}}],
            [{"k": "step", "fn": {"sleep": d, "then": {"ret": "sib"}}}]]}
        p = {"name": f"par[par[w1ss,s{d}],s5]", "seq": [{"k": "par", "cfg": ac, "branches": [
            [inner], [{"k": "step", "fn": {"sleep": 5, "then": {"ret": "slow"}}}]]}]}
        for lat in (0.0, 0.3):
            units.append(({"program": p, "cfg": {"env_kinds": [], "api_latency": lat}},
                          {"thread": 1, "total": 1} if (tier != "quick" or lat) else {"total": 0}, 20_000))
    return units


def run(ctx):
    units = simcheck.standard_space(ctx.tier) + fault_units(ctx.tier) + boundary_units(ctx.tier) + nested_resume_units(ctx.tier)
    return simcheck.run_check(ctx, MOD, units, BOUNDS + "; 9 programs (incl. step/child bodies that outlast the batch window, so that "
                              "an asynchronous START travels alone) with every checkpoint call rejected (5xx/429/4xx), with and "
                              "without API latency, followed by Lambda's retry; 60 programs in which two concurrent ~384 KB step results fill a batch "
                              "to within -40..+380 bytes (6-byte steps) of the size limit just before a child context START and its "
                              "first inner START are handed over; 8 nested programs (inner parallel with a timed-suspended branch whose sibling ends on a "
                              "100 ms grid around its wake-up, inside an outer parallel that stays alive) with 0/300 ms API latency")


def replay(rep):
    r = rep["replay"]
    unit = {"program": r["program"], "cfg": r["cfg"]}
    res = exec_one(unit, r["prefix"], expect=r.get("options"))
    d = res.info["driver"]
    return {"violations": [{"sig": v["sig"], "msg": v["msg"]} for v in res.violations],
            "internal": res.internal, "summary": d.summary()}


BOUNDS = ("programs: all sequences of <=2 units over 14 unit kinds (step, typed-value step, at-most-once step, "
          "retrying step, caught failing step, wait, callback, callback+step, wait_for_callback, invoke, "
          "wait_for_condition, child[step,wait,step], parallel[2 branches], map[2 items]) and <=3 units over 6 kinds, "
          "plus nested shapes; per program: every single crash point (before/after each backend call, at each user "
          "function entry, after the handler returned) and every pagination mode of each re-invocation (quick: one "
          "deviation; one-unit programs and thorough: two); policies rtb/low/high; +1 scheduling/timer deviation on "
          "concurrent shapes")
