"""Component harness on the real ExecutionState checkpoint pipeline (C05, C06a).

Producers call create_checkpoint on a real ExecutionState; the real
checkpoint_batches_forever runs as the consumer; the service client is a recording fake that
can fail at API call k.  Every thread is a virtual thread under the controlled scheduler.
"""
from __future__ import annotations

import json

from vcheck.vsched import core, explore, prims

# update alphabet: code -> (sync?, kind)
ALPHABET = {
    "a": (False, "small"),
    "s": (True, "small"),
    "L": (True, "large"),
    "l": (False, "large"),
    "O": (True, "over"),
    "o": (False, "over"),
    "e": (True, "empty"),
    "E": (False, "empty"),
    "U": (True, "uni"),      # non-ASCII payload: 55 three-byte characters (165 bytes raw, 330 bytes as \\uXXXX escapes)
    "u": (False, "uni"),
}
MAX_BYTES = 400
PAYLOAD = {"small": "", "large": "x" * 180, "over": "y" * 480, "uni": "\u4e2d" * 55}


class ApiFailure(RuntimeError):
    pass


def make_update(pid, idx, kind):
    from aws_durable_execution_sdk_python.lambda_service import (
        OperationAction, OperationSubType, OperationType, OperationUpdate)
    if kind == "empty":
        return None
    return OperationUpdate(
        operation_id=f"p{pid}-{idx}", operation_type=OperationType.STEP,
        action=OperationAction.SUCCEED, sub_type=OperationSubType.STEP,
        name=f"u{pid}.{idx}", payload=PAYLOAD[kind] or None)


def usize(u):
    return len(json.dumps(u.to_dict()).encode("utf-8"))


def make_failure(cls):
    """Exception raised by the fake service client at the failing call."""
    from aws_durable_execution_sdk_python.exceptions import CheckpointError, CheckpointErrorCategory
    if cls == "invocation":
        return CheckpointError("ckpt 500", CheckpointErrorCategory.INVOCATION)
    if cls == "execution":
        return CheckpointError("ckpt 4xx", CheckpointErrorCategory.EXECUTION)
    return ApiFailure("boom")


def run_one(cfg, prefix, expect=None):
    from aws_durable_execution_sdk_python.exceptions import BackgroundThreadError
    from aws_durable_execution_sdk_python.lambda_service import (
        CheckpointOutput, CheckpointUpdatedExecutionState)
    from aws_durable_execution_sdk_python.state import CheckpointBatcherConfig, ExecutionState

    producers = cfg["producers"]  # list of strings over ALPHABET
    max_ops = cfg.get("max_ops", 250)
    window = cfg.get("window", 1.0)
    fail_at = cfg.get("fail_at")  # 1-based API call number that fails, or None
    fail_cls = cfg.get("fail_cls", "runtime")
    latency = cfg.get("latency", 0.0)
    after = cfg.get("after", "")  # ops every producer issues after it first saw the failure
    paged_at = cfg.get("paged_at")   # 1-based API call whose response is paginated (one further page to fetch)
    state_fail = cfg.get("state_fail", False)   # the follow-up GetDurableExecutionState call fails

    ex = core.Exec(prefix=prefix, policy=cfg.get("policy", "rtb"), horizon=cfg.get("horizon", 40.0),
                   timer_choices=cfg.get("timer", True), expect=expect, max_steps=60000, stall_menu=cfg.get("stall"), stall_ops=cfg.get("stall_ops"),
                   line_files=_line_files() if cfg.get("line") else None)
    calls = []   # API calls: dict(tick, token, ids, sizes, failed)
    state_calls = []
    events = []  # producer-side: (kind, pid, idx, tick, extra)
    failure = {"exc": None, "tick": None}

    class Client:
        def checkpoint(self, durable_execution_arn, checkpoint_token, updates, client_token):
            ex.point()
            if latency:
                ex.sleep(latency)
            n = len(calls) + 1
            rec = {"n": n, "tick": ex.next_tick(), "token": checkpoint_token,
                   "ids": [u.operation_id for u in updates], "sizes": [usize(u) for u in updates],
                   "failed": False}
            calls.append(rec)
            if fail_at is not None and n == fail_at:
                rec["failed"] = True
                failure["exc"] = make_failure(fail_cls)
                failure["tick"] = rec["tick"]
                raise failure["exc"]
            marker = "page2" if paged_at is not None and n == paged_at else None
            return CheckpointOutput(checkpoint_token=f"tok{n}",
                                    new_execution_state=CheckpointUpdatedExecutionState(next_marker=marker))

        def get_execution_state(self, durable_execution_arn=None, checkpoint_token=None, next_marker=None, **k):
            from aws_durable_execution_sdk_python.lambda_service import StateOutput
            ex.point()
            state_calls.append({"tick": ex.next_tick(), "token": checkpoint_token, "marker": next_marker})
            if state_fail:
                failure["exc"] = make_failure(fail_cls)
                failure["tick"] = ex.next_tick()
                raise failure["exc"]
            return StateOutput(operations=[], next_marker=None)

    state_box = {}

    def producer(pid, seq):
        st = state_box["st"]
        idx = 0
        todo = list(seq)
        saw_failure = False
        while todo:
            code = todo.pop(0)
            sync, kind = ALPHABET[code]
            u = make_update(pid, idx, kind)
            uid = u.operation_id if u is not None else None
            events.append(("invoke", pid, idx, ex.next_tick(), {"sync": sync, "id": uid, "kind": kind}))
            try:
                st.create_checkpoint(u, is_sync=sync)
                events.append(("return", pid, idx, ex.next_tick(), {}))
            except BackgroundThreadError as e:
                events.append(("raise", pid, idx, ex.next_tick(),
                               {"type": "BackgroundThreadError", "src_is_failure": e.source_exception is failure["exc"]}))
                if not saw_failure:
                    saw_failure = True
                    todo = list(after)
            except Exception as e:  # noqa: BLE001
                events.append(("raise", pid, idx, ex.next_tick(), {"type": type(e).__name__, "msg": str(e)}))
            idx += 1
        events.append(("done", pid, idx, ex.next_tick(), {}))

    def main():
        st = ExecutionState(
            durable_execution_arn="arn:test", initial_checkpoint_token="tok0", operations={},
            service_client=Client(),
            batcher_config=CheckpointBatcherConfig(max_batch_size_bytes=cfg.get("max_bytes", MAX_BYTES),
                                                   max_batch_time_seconds=window,
                                                   max_batch_operations=max_ops))
        state_box["st"] = st
        cons = prims.Thread(target=st.checkpoint_batches_forever, name="consumer")
        cons.start()
        ps = [prims.Thread(target=producer, args=(i, seq), name=f"prod{i}")
              for i, seq in enumerate(producers)]
        for p in ps:
            p.start()
        for p in ps:
            p.join()
        events.append(("all-producers-done", -1, -1, ex.next_tick(), {}))
        st.stop_checkpointing()
        cons.join()
        events.append(("consumer-joined", -1, -1, ex.next_tick(), {}))

    ex.run(main)
    internal = str(ex.internal_error) if ex.internal_error else None
    return ex, calls, events, failure, internal


def _line_files():
    import aws_durable_execution_sdk_python.state as m
    import aws_durable_execution_sdk_python.threading as t
    return {m.__file__, t.__file__}


def features(cfg):
    """Structural features of a config used in violation signatures."""
    f = []
    seqs = cfg["producers"]
    if any(c in "Oo" for s in seqs for c in s):
        f.append("oversize")
    if any(c in "Ll" for s in seqs for c in s):
        f.append("large")
    if any(c in "eE" for s in seqs for c in s):
        f.append("empty")
    if any(c in "uU" for s in seqs for c in s):
        f.append("non-ascii")
    return "+".join(f) or "small-only"


def judge_stream(cfg, ex, calls, events):
    """C05 oracle over the recorded API calls and producer events (no failing call)."""
    viol = []
    feat = features(cfg)

    def V(clause, msg):
        viol.append({"sig": f"C05/{clause}/{feat}", "msg": msg})

    if ex.end_reason != "main-returned":
        blocked = [t["name"] for t in (ex.end_detail or []) if t["state"] == "BLOCK" and t["name"].startswith("prod")]
        V(f"sync-caller-never-released", f"{ex.end_reason}: producers still blocked: {blocked}; "
          f"calls so far: {[c['ids'] for c in calls]}")
    for name, e in ex.errors:
        V("uncaught", f"uncaught {type(e).__name__} in {name}: {e}")
    # delivery position of every update id
    delivered = {}
    order = []
    for c in calls:
        if c["failed"]:
            continue   # rejected by the service: not delivered
        for uid in c["ids"]:
            if uid in delivered:
                V("duplicate", f"update {uid} delivered twice (calls {delivered[uid][0]} and {c['n']})")
            delivered[uid] = (c["n"], c["tick"])
            order.append(uid)
    inv = {}
    ret = {}
    meta = {}
    for kind, pid, idx, tick, extra in events:
        if kind == "invoke":
            inv[(pid, idx)] = tick
            meta[(pid, idx)] = extra
        elif kind in ("return", "raise"):
            ret[(pid, idx)] = (kind, tick, extra)
    failing = cfg.get("fail_at") is not None or cfg.get("state_fail")
    for key, (kind, tick, extra) in ret.items():
        if kind == "raise" and not (failing and extra.get("type") == "BackgroundThreadError"):
            V("unexpected-error", f"create_checkpoint {key} raised {extra}")
    # a sync call's own update is delivered before it returns
    for key, m in meta.items():
        if m["sync"] and m["id"] and key in ret and ret[key][0] == "return":
            d = delivered.get(m["id"])
            if d is None or d[1] > ret[key][1]:
                V("sync-returned-before-delivery", f"sync call {key} returned successfully but {m['id']} was not "
                  f"accepted by the service before (released without its update applied and without the failure)")
    # everything handed over (call returned) before a sync call was invoked is delivered by its return
    for skey, sm in meta.items():
        if not sm["sync"] or skey not in ret or ret[skey][0] != "return":
            continue
        for ukey, um in meta.items():
            if um["id"] is None or ukey == skey or ukey not in ret:
                continue
            if ret[ukey][1] < inv[skey]:
                d = delivered.get(um["id"])
                if d is None or d[1] > ret[skey][1]:
                    V("lost-before-sync-return", f"update {um['id']} handed over before sync call {skey} "
                      f"was invoked but not delivered when it returned")
    # order: linear extension of program order and real-time order between calls
    pos = {uid: i for i, uid in enumerate(order)}
    keys = [k for k, m in meta.items() if m["id"] in pos]
    for a in keys:
        for b in keys:
            if a == b:
                continue
            before = (a[0] == b[0] and a[1] < b[1]) or (a in ret and ret[a][1] < inv[b])
            if before and pos[meta[a]["id"]] > pos[meta[b]["id"]]:
                V("reordered", f"{meta[a]['id']} was handed over before {meta[b]['id']} but delivered after it "
                  f"(delivery order {order})")
    # token chain
    prev = "tok0"
    for c in calls:
        if c["token"] != prev:
            V("token-chain", f"call {c['n']} carried token {c['token']}, expected {prev}")
        prev = f"tok{c['n']}"
    # limits
    for c in calls:
        if len(c["ids"]) > cfg.get("max_ops", 250):
            V("op-count-limit", f"call {c['n']} has {len(c['ids'])} updates > {cfg.get('max_ops')}")
        if len(c["ids"]) > 1 and sum(c["sizes"]) > cfg.get("max_bytes", MAX_BYTES):
            V("size-limit", f"call {c['n']} has {sum(c['sizes'])} bytes (as serialized for the wire) in {len(c['ids'])} updates > "
                            f"{cfg.get('max_bytes', MAX_BYTES)}")
    return viol


def outcome(calls, events):
    return [[c["ids"], c["failed"]] for c in calls] + [
        (k, p, i) for k, p, i, _, _ in events if k in ("raise",)]
