"""C19 - OrderedLock / OrderedCounter: FIFO, exclusive, gap-free, never wedged.

Harness: k real threads perform `with lock:` sections (or counter increments) on the real
classes under the controlled scheduler; an exception may be injected in one critical section.
Explored: every interleaving within the deviation budget, at sync-op granularity and at line
granularity of the SDK's threading.py.
"""
from __future__ import annotations

import itertools

from vcheck.vsched import core, explore, prims
from vcheck.vsched.core import BLOCK

MOD = "vcheck.props.c19"


class Boom(Exception):
    pass


class BoomBase(BaseException):
    """A section may also be left with an exception that is not an `Exception` (the SDK's own suspend and
    orphan signals are BaseExceptions)."""


def _make_exc(kind, msg):
    if kind == "base":
        return BoomBase(msg)
    if kind == "suspend":
        from aws_durable_execution_sdk_python.exceptions import SuspendExecution
        return SuspendExecution(msg)
    return Boom(msg)


def _line_files():
    import aws_durable_execution_sdk_python.threading as m
    return {m.__file__}


def run_one(cfg, prefix, expect=None):
    """One controlled execution of the lock/counter harness. Returns RunResult."""
    from aws_durable_execution_sdk_python.exceptions import OrderedLockError
    from aws_durable_execution_sdk_python.threading import OrderedCounter, OrderedLock

    k = cfg["k"]
    sections = cfg["sections"]
    inject = tuple(cfg["inject"]) if cfg.get("inject") else None
    staged = cfg.get("staged", False)
    kind = cfg.get("kind", "lock")
    obs = []
    est = []  # (earlier call, later call) pairs whose arrival order is established
    state = {"cur": {}, "granted": {}}
    vts = {}

    ex = core.Exec(prefix=prefix, policy=cfg.get("policy", "rtb"), horizon=50.0,
                   line_files=_line_files() if cfg.get("line") else None, expect=expect,
                   max_steps=20000)

    def parked_or_holding(i):
        """Has thread i's outstanding acquire call arrived for sure?"""
        if state["granted"].get(i):
            return True
        vt = vts.get(i)
        if vt is None or i not in state["cur"]:
            return False
        # parked inside acquire(): on whatever the implementation waits with for its turn (an Event per waiter in the
        # pinned tree; a Condition or a semaphore would do as well) - but not on a plain mutex, which it may still be
        # queueing for before it has taken its place in line
        return vt.state == BLOCK and vt.on is not None and vt.on[1] in ("event", "cond", "sem") and vt.on[0] is not go

    def note_call(i, j):
        for o, call in list(state["cur"].items()):
            if o != i and parked_or_holding(o):
                est.append((call, (i, j)))
        state["cur"][i] = (i, j)
        state["granted"][i] = False
        obs.append(("call", i, j))

    go = prims.Event()

    def worker_lock(i, lock):
        vts[i] = ex.me()
        for j in range(sections):
            note_call(i, j)
            try:
                with lock:
                    state["granted"][i] = True
                    obs.append(("in", i, j))
                    if staged and i == 0 and j == 0:
                        go.wait()
                    if inject == (i, j):
                        obs.append(("raise", i, j))
                        raise _make_exc(cfg.get("exc"), f"boom-{i}-{j}")
                    obs.append(("out", i, j))
            except Boom as e:
                obs.append(("exc", i, j, "Boom", str(e)))
            except BaseException as e:  # noqa: BLE001
                if inject == (i, j) and cfg.get("exc") in ("base", "suspend") and str(e) == f"boom-{i}-{j}":
                    obs.append(("exc", i, j, "Boom", str(e)))   # the holder's own exception
                elif isinstance(e, OrderedLockError):
                    obs.append(("exc", i, j, "OrderedLockError", type(e.source_exception).__name__))
                elif isinstance(e, Exception):
                    obs.append(("exc", i, j, type(e).__name__, str(e)))
                else:
                    raise
            except OrderedLockError as e:
                obs.append(("exc", i, j, "OrderedLockError", type(e.source_exception).__name__))
            except Exception as e:  # noqa: BLE001
                obs.append(("exc", i, j, type(e).__name__, str(e)))
            state["cur"].pop(i, None)
            state["granted"][i] = False
        obs.append(("done", i))

    def worker_counter(i, counter):
        vts[i] = ex.me()
        for j in range(sections):
            note_call(i, j)
            try:
                v = counter.increment()
                obs.append(("val", i, j, v))
            except Exception as e:  # noqa: BLE001
                obs.append(("exc", i, j, type(e).__name__, str(e)))
            state["cur"].pop(i, None)
        obs.append(("done", i))

    def main():
        if kind == "lock":
            target, shared = worker_lock, OrderedLock()
        else:
            target, shared = worker_counter, OrderedCounter()
        ts = [prims.Thread(target=target, args=(i, shared), name=f"w{i}") for i in range(k)]
        if staged:
            for i, t in enumerate(ts):
                t.start()
                ex.block(lambda i=i: parked_or_holding(i) or ("done", i) in obs, None,
                         on=("stage", i))
            go.set()
        else:
            for t in ts:
                t.start()
        for t in ts:
            t.join()
        obs.append(("joined",))

    ex.run(main)
    viol = []
    internal = str(ex.internal_error) if ex.internal_error else None
    if internal is None:
        viol = judge(cfg, obs, est, ex)
    for v in viol:
        v["replay"] = {"cfg": cfg, "prefix": ex.choices(), "options": [list(o) for o, _ in ex.trace]}
        v["obs"] = [list(o) for o in obs]
    return explore.RunResult(trace=ex.trace, steps=ex.steps, violations=viol,
                             outcome=[o for o in obs if o[0] in ("in", "val", "exc")],
                             internal=internal, info={"end": ex.end_reason})


def judge(cfg, obs, est, ex):
    viol = []
    kind = cfg.get("kind", "lock")
    tag = f"kind={kind}"

    def V(clause, msg):
        viol.append({"sig": f"C19/{clause}/{tag}", "msg": msg})

    if ex.end_reason != "main-returned":
        V(f"liveness-{ex.end_reason}",
          f"threads did not all terminate: {ex.end_reason} {ex.end_detail}")
        return viol
    for name, e in ex.errors:
        V("uncaught", f"uncaught {type(e).__name__} in {name}: {e}")
    pos = {}
    for n, o in enumerate(obs):
        if o[0] in ("in", "val"):
            pos[(o[1], o[2])] = n
    if kind == "lock":
        inside = None
        raised_at = None
        for n, o in enumerate(obs):
            if o[0] == "in":
                if inside is not None:
                    V("mutual-exclusion", f"{o[1:]} entered while {inside} inside")
                if raised_at is not None:
                    V("enter-after-break", f"{o[1:]} entered after a section raised at obs {raised_at}")
                inside = (o[1], o[2])
            elif o[0] in ("out", "raise"):
                if inside != (o[1], o[2]):
                    V("mutual-exclusion", f"{o[1:]} left but {inside} was inside")
                inside = None
                if o[0] == "raise":
                    raised_at = n
        inj = tuple(cfg["inject"]) if cfg.get("inject") else None
        for o in obs:
            if o[0] == "exc":
                i, j, typ = o[1], o[2], o[3]
                if inj == (i, j) and ("raise", i, j) in obs:
                    if typ != "Boom":
                        V("own-exception", f"raising holder saw {typ} instead of its own exception")
                elif typ != "OrderedLockError":
                    V("wrong-error", f"acquirer {i},{j} got {typ}: {o[4]}")
                elif inj is None or ("raise",) + inj not in obs:
                    V("spurious-error", f"acquirer {i},{j} got OrderedLockError with no broken section")
        if inj is not None and ("raise",) + inj in obs:
            if not any(x[0] == "exc" and (x[1], x[2]) == inj for x in obs):
                V("own-exception-lost", f"holder {inj} left its section with an exception but never saw it (the `with` block "
                  f"completed normally)")
            r = obs.index(("raise",) + inj)
            # every call whose section had not been entered before the raise must error
            for o in obs:
                if o[0] == "call":
                    c = (o[1], o[2])
                    if c == inj:
                        continue
                    entered_before = c in pos and pos[c] < r
                    if not entered_before:
                        if not any(x[0] == "exc" and (x[1], x[2]) == c and x[3] == "OrderedLockError"
                                   for x in obs):
                            V("no-error-after-break", f"acquire {c} did not get OrderedLockError after break")
    else:
        vals = sorted(o[3] for o in obs if o[0] == "val")
        n = cfg["k"] * cfg["sections"]
        if vals != list(range(1, n + 1)):
            V("counter-values", f"increments returned {vals}, expected 1..{n}")
        for o in obs:
            if o[0] == "exc":
                V("counter-error", f"increment raised {o[3]}: {o[4]}")
    # FIFO with respect to established arrival order
    valof = {(o[1], o[2]): o[3] for o in obs if o[0] == "val"}
    for a, b in est:
        if kind == "lock":
            if a in pos and b in pos and pos[a] > pos[b]:
                V("fifo", f"acquire {a} arrived (parked) before {b} was invoked but {b} was granted first")
            if b in pos and a not in pos and not any(x[0] == "exc" and (x[1], x[2]) == a for x in obs):
                V("fifo", f"acquire {a} arrived before {b} but never got in")
        else:
            if a in valof and b in valof and valof[a] > valof[b]:
                V("fifo", f"increment {a} arrived before {b} but got {valof[a]} > {valof[b]}")
    return viol


# ----------------------------------------------------------------------------- units
def _unit(arg):
    cfg, budget, max_execs = arg
    st, viols = explore.explore(lambda p: run_one(cfg, p), budget, max_execs=max_execs)
    return {"cfg": cfg, "budget": budget, "stats": _stats_dict(st), "viols": [v for _, v in viols][:20],
            "nviol": len(viols), "est_pairs": 0}


def _stats_dict(st):
    return {"executions": st.executions, "nodes": st.nodes, "steps": st.steps,
            "max_dev": st.max_dev, "by_level": st.by_level, "outcomes": sorted(st.outcomes),
            "capped": st.capped, "cap_note": st.cap_note, "internal": st.internal[:3],
            "end_reasons": st.end_reasons}


def configs(tier):
    """(cfg, budget, execution cap) triples.  Budgets are deviation bounds (non-default
    scheduling choices: preemptions and non-default picks at blocking points)."""
    out = []
    quick = tier == "quick"

    def injections(k, sections):
        return [None] + [(i, j) for i in range(k) for j in range(sections)]

    # (k, sections) -> budget at sync-op granularity / at line granularity
    sync_b = {(2, 1): 5, (2, 2): 3, (3, 1): 3} if quick else {(2, 1): 7, (2, 2): 5, (3, 1): 4, (3, 2): 3}
    line_b = {(2, 1): 3, (2, 2): 2, (3, 1): 2} if quick else {(2, 1): 4, (2, 2): 3, (3, 1): 3}
    cap = 300_000 if quick else 3_000_000
    for (k, sections), b in sync_b.items():
        for inj in injections(k, sections):
            for staged in (False, True):
                out.append(({"kind": "lock", "k": k, "sections": sections, "inject": inj,
                             "staged": staged, "line": False, "policy": "rtb"}, {"thread": b}, cap))
        for staged in (False, True):
            out.append(({"kind": "counter", "k": k, "sections": sections, "inject": None,
                         "staged": staged, "line": False, "policy": "rtb"}, {"thread": b}, cap))
        # the section is left with a BaseException that is not an Exception
        for inj in injections(k, sections)[1:]:
            for exc in ("base", "suspend"):
                out.append(({"kind": "lock", "k": k, "sections": sections, "inject": inj, "exc": exc,
                             "staged": True, "line": False, "policy": "rtb"}, {"thread": max(1, b - 2)}, cap))
    for (k, sections), b in line_b.items():
        for inj in injections(k, sections):
            for staged in (False, True):
                out.append(({"kind": "lock", "k": k, "sections": sections, "inject": inj,
                             "staged": staged, "line": True, "policy": "rtb"}, {"thread": b}, cap))
        for staged in (False, True):
            out.append(({"kind": "counter", "k": k, "sections": sections, "inject": None,
                         "staged": staged, "line": True, "policy": "rtb"}, {"thread": b}, cap))
    if not quick:
        for inj in [None, (0, 0), (1, 0), (3, 0)]:
            for staged in (False, True):
                out.append(({"kind": "lock", "k": 4, "sections": 1, "inject": inj, "staged": staged,
                             "line": False, "policy": "rtb"}, {"thread": 3}, cap))
        out.append(({"kind": "counter", "k": 4, "sections": 1, "inject": None, "staged": False,
                     "line": False, "policy": "rtb"}, {"thread": 3}, cap))
    return out


def run(ctx):
    units = configs(ctx.tier)
    # order of visiting is seed-permuted; coverage is not
    import random
    rnd = random.Random(ctx.seed)
    order = list(range(len(units)))
    rnd.shuffle(order)
    res = ctx.pmap(MOD, "_unit", [units[i] for i in order])
    tot = explore.Stats()
    viols = []
    per = []
    internal = []
    for r in res:
        s = r["stats"]
        tot.executions += s["executions"]
        tot.nodes += s["nodes"]
        tot.steps += s["steps"]
        tot.outcomes |= set(s["outcomes"])
        tot.capped = tot.capped or s["capped"]
        internal.extend(s["internal"])
        per.append({"cfg": r["cfg"], "budget": r["budget"], "executions": s["executions"], "max_dev": s["max_dev"],
                    "distinct_outcomes": len(s["outcomes"]), "capped": s["capped"],
                    "cap_note": s["cap_note"], "end_reasons": s["end_reasons"]})
        viols.extend(r["viols"])
    vac = [p["cfg"] for p in per if p["distinct_outcomes"] <= 1 and p["cfg"]["k"] > 1
           and not p["cfg"].get("staged")]
    samples = [{"cfg": p["cfg"], "executions": p["executions"], "distinct_outcomes": p["distinct_outcomes"]}
               for p in per[:4]]
    cov = {
        "states": tot.nodes,
        "transitions": tot.steps,
        "traces_validated_against_impl": tot.executions,
        "samples": samples,
        "distinct_outcomes": len(tot.outcomes),
        "harness_configs": len(units),
        "capped": tot.capped,
        "caps": [p for p in per if p["capped"]],
        "vacuous_configs": vac,
        "bounds": "deviation budget per config in per_config[].budget (sync-op granularity 3-5 quick / 3-7 thorough; "
                  "line granularity on threading.py 2-3 quick / 3-4 thorough); "
                  "k in {2,3} threads (4 in thorough), 1-2 sections each, exception in any one section or none; "
                  "staged and free arrival regimes",
        "explanation": "every explored trace is an execution of the real OrderedLock/OrderedCounter "
                       "under the controlled scheduler; states = choice-tree nodes, transitions = scheduling steps",
        "per_config": per,
    }
    return {"coverage": cov, "violations": viols, "internal": internal,
            "assumptions": ["virtual Lock/Event mirror threading.Lock/Event (selftest)",
                            "preemption only at visible operations and at line boundaries of threading.py"]}


def replay(rep):
    r = rep["replay"]
    res = run_one(r["cfg"], r["prefix"], expect=r.get("options"))
    return {"violations": [{"sig": v["sig"], "msg": v["msg"]} for v in res.violations],
            "obs": res.violations[0]["obs"] if res.violations else None,
            "internal": res.internal}
