"""C04 - at-most-once steps start their function at most once per attempt.
Space: one at-most-once step in 4 placements x retry strategies x behaviours x every crash
point (pairs of crashes for the stand-alone placement)."""
from __future__ import annotations

from vcheck.props import simcheck
from vcheck.sim import monitors

RETRIES = {"none": "none", "t1": {"table": [1, "no"]}, "t12": {"table": [1, 2, "no"]},
           "only-boom": {"table": [1, 2, "no"], "only": ["Boom"]}, "default": "default"}
BEHS = {"ok": {"ret": "v"}, "fail1": {"fail": 1, "then": {"ret": "v"}}, "fail2": {"fail": 2, "then": {"ret": "v"}},
        "always": {"raise": "Boom", "msg": "always"}}


def most_step(retry, beh):
    return {"k": "try", "catch": ["CallableRuntimeError"],
            "body": {"k": "step", "sem": "most", "fn": BEHS[beh], "retry": RETRIES[retry]}}


def programs(tier):
    out = []
    for rn in RETRIES:
        for bn in BEHS:
            if rn == "default" and bn in ("fail2", "always"):
                continue  # default preset: 6 attempts with long delays adds nothing new
            st = most_step(rn, bn)
            tag = f"{rn}/{bn}"
            out.append(("alone", {"name": f"most[{tag}]", "seq": [st]}))
            out.append(("after", {"name": f"S+most[{tag}]", "seq": [{"k": "step", "fn": {"ret": 1}}, st]}))
            out.append(("child", {"name": f"child[most[{tag}]]", "seq": [{"k": "child", "body": [st, {"k": "step", "fn": {"ret": 2}}]}]}))
            out.append(("par", {"name": f"par[most[{tag}],S]",
                                "seq": [{"k": "par", "branches": [[st], [{"k": "step", "fn": {"ret": 3}}]],
                                         "cfg": {"cc": "all_completed"}}]}))
    # the branch is resumed in-process by its own timer while a sibling is still running
    for rn, bn in (("t1", "fail1"), ("t12", "fail2"), ("t12", "always")):
        st = most_step(rn, bn)
        out.append(("resume", {"name": f"par[most[{rn}/{bn}],slow]", "seq": [
            {"k": "par", "cfg": {"cc": "all_completed"}, "branches": [
                [st, {"k": "step", "fn": {"ret": "next"}}], [{"k": "step", "fn": {"sleep": 6, "then": {"ret": "slow"}}}]]}]}))
    return out


def space(tier):
    quick = tier == "quick"
    cap = 30_000 if quick else 500_000
    units = []
    for place, p in programs(tier):
        two = (place == "alone") or not quick
        n_crash = 3 if (place == "alone" and not quick) else (2 if two else 1)
        units.append(({"program": p, "cfg": {"env_kinds": ["crash"]}}, {"crash": n_crash, "total": n_crash}, cap))
        if place == "resume":
            # ... and the service is slow to flip the retry from PENDING to READY (the refreshed state still says PENDING
            # with a timestamp in the past)
            for lag in (0.3, 1.5):
                units.append(({"program": p, "cfg": {"env_kinds": ["crash"], "timer_lag": lag}}, {"crash": 1, "total": 1}, cap))
        if place == "alone":
            # the history that holds the STARTED attempt arrives paginated (empty first page, empty middle page, ...)
            units.append(({"program": p, "cfg": {"env_kinds": ["crash", "page"], "page_modes": [0, 1, 3, 5]}},
                          {"crash": 1, "page": 1, "total": 2}, cap))
        if place in ("alone", "par"):
            for pol in ("low", "high"):
                units.append(({"program": p, "cfg": {"env_kinds": ["crash"], "policy": pol}},
                              {"crash": 1, "total": 1}, cap))
    return units


simcheck.install(globals(), "C04", [monitors.judge_c04], space,
                 "one at-most-once step x placements {alone, after a step, in a child context, in a parallel branch} "
                 "x retry strategies {none, table[1], table[1,2], table filtered to Boom (StepInterruptedError not "
                 "retried), default preset} x behaviours {ok, fail once, fail twice, always fail}; every crash point "
                 "(pairs of crash points for the stand-alone placement; thorough: pairs everywhere, triples for the stand-alone placement); policies rtb/low/high; every pagination mode of the replayed history (stand-alone placement); "
                 "three programs whose branch is resumed in-process by its retry timer next to a running sibling, also with a "
                 "backend that flips PENDING to READY 0.3 / 1.5 s late")
