"""Multi-invocation driver: runs a DSL program through the production entry point
durable_execution(handler, boto3_client=Backend) until the execution terminates, making
every environment decision (crash, fault, pagination, delivery order) a recorded choice.
"""
from __future__ import annotations

import json

from vcheck.vsched import core
from vcheck.vsched.core import Chooser, Exec, Killed

from . import dsl
from .backend import Backend, client_error, fmt_path

START = 1_700_000_000.0

DEFAULT_CFG = {
    "policy": "rtb",
    "env_kinds": [],            # which environment choice kinds are explored
    "crash_sites": ["before-call", "after-apply", "fn-entry", "after-return"],
    "faults": [],               # fault menu at before-call: names from backend.FAULTS or 'blackhole'
    "state_faults": [],         # fault menu at get_durable_execution_state
    "page_modes": [0],          # pagination menu for re-invocations (first = default)
    "deliver_outcomes": ["ok"],  # outcomes offered when completing an external while PENDING
    "early_outcomes": [],       # outcomes offered for completing an external during an invocation
    "spurious": False,          # offer one re-invocation with nothing delivered
    "horizon": 150.0,
    "max_inv": 14,
    "max_retries": 3,
    "timer_choices": False,
    "timer_lag": 0.0,           # seconds the backend needs to notice that a wait / retry delay is over
    "stall": [],                # menu of stall durations (s): the running thread may lose the CPU that long at any point
    "line_files": None,
    "max_steps": 60_000,
    "ext_payload": '"ext"',
    "allow_unmapped": False,
    "grace": 0.0,               # virtual seconds threads keep running after the wrapper returned
    "api_latency": 0.0,         # virtual duration of a checkpoint API call (0: instantaneous)
}

OUTCOMES = {
    "ok": ("SUCCEEDED", "payload", None),
    "ok-empty": ("SUCCEEDED", "", None),
    "ok-none": ("SUCCEEDED", None, None),
    "fail": ("FAILED", None, {"ErrorType": "ExtError", "ErrorMessage": "ext failed"}),
    "fail-nomsg": ("FAILED", None, {"ErrorType": "ExtError"}),
    "timeout": ("TIMED_OUT", None, {"ErrorType": "Callback.Timeout", "ErrorMessage": "ext timed out"}),
    "stopped": ("STOPPED", None, {"ErrorType": "ChainedInvoke.Stopped", "ErrorMessage": "ext stopped"}),
    "cancelled": ("CANCELLED", None, {"ErrorMessage": "ext cancelled"}),
    # terminal non-success outcomes recorded without any error object
    "fail-noerr": ("FAILED", None, None),
    "timeout-noerr": ("TIMED_OUT", None, None),
    "stopped-noerr": ("STOPPED", None, None),
}


class LambdaCtx:
    aws_request_id = "req-1"
    log_group_name = None
    log_stream_name = None
    function_name = "verif"
    memory_limit_in_mb = "128"
    function_version = "$LATEST"
    invoked_function_arn = "arn:aws:lambda:us-east-1:123456789012:function:verif"
    tenant_id = None
    client_context = None
    identity = None

    def get_remaining_time_in_millis(self):
        return 900_000

    def log(self, msg):
        pass


class Driver:
    def __init__(self, program, cfg=None, prefix=(), expect=None):
        c = dict(DEFAULT_CFG)
        c.update(cfg or {})
        self.cfg = c
        self.program = program
        self.chooser = Chooser(prefix, expect, c["env_kinds"])
        self.clock = START
        self.tick_ = 0
        self.inv = 0
        self.ex = None
        self.running = False
        self.invocations = []
        self.internal = None
        self.steps = 0
        self.spurious_used = False
        self.env_log = []  # human-readable environment decisions
        self.backend = Backend(self, json.dumps(program.get("input", {})))
        self.world = dsl.World(self)
        self.final = None

    # ------------------------------------------------------------------ clock
    def now(self):
        return self.ex.now if self.running else self.clock

    def tick(self):
        if self.running:
            return self.ex.next_tick()
        self.tick_ += 1
        return self.tick_

    # ------------------------------------------------------------------ choice sites
    def _crash(self, where, rec):
        if where in self.cfg["crash_sites"] and self.ex.env_choice("crash", 2) == 1:
            self.env_log.append({"inv": self.inv, "crash": where, "at": _brief(rec)})
            self.cur["crash"] = {"where": where, "at": _brief(rec), "tick": self.ex.tick}
            if "outcome" in rec:
                rec["outcome"] = "crash-" + where
            self.ex.terminate("crash", where)

    def _complete_menu(self, outcomes, kind):
        out = self.backend.outstanding()
        if not out or not outcomes:
            return
        menu = [(i, o) for i in out for o in outcomes]
        k = self.ex.env_choice(kind, 1 + len(menu)) if self.running else self.chooser.env(kind, 1 + len(menu))
        if k > 0:
            i, o = menu[k - 1]
            self._complete(i, o)

    def _complete(self, i, o):
        status, payload, err = OUTCOMES[o]
        if payload == "payload":
            payload = self.cfg["ext_payload"]
        self.backend.complete(i, status, payload, err)
        self.env_log.append({"inv": self.inv, "complete": fmt_path(self.backend.path_of.get(i, ("?",))),
                             "outcome": o, "during": self.running})

    def site(self, kind, rec):
        ex = self.ex
        if ex is None or not self.running or ex.killed:
            return
        if kind == "before-call":
            self._crash("before-call", rec)
            faults = self.cfg["faults"]
            if faults:
                k = ex.env_choice("fault", 1 + len(faults))
                if k > 0:
                    name = faults[k - 1]
                    rec["outcome"] = "fault:" + name
                    self.env_log.append({"inv": self.inv, "fault": name, "call": rec["n"]})
                    self.cur["faults"].append({"call": rec["n"], "name": name, "tick": ex.tick})
                    if name == "blackhole":
                        ex.block(lambda: False, None, on=("api", "blackhole"))
                    if name.startswith("badresp-"):
                        rec["bad_response"] = name.split("-", 1)[1]   # a 200 response the SDK cannot parse
                        return
                    raise client_error(name, "CheckpointDurableExecution")
        elif kind == "deliver-during":
            self._complete_menu(self.cfg["early_outcomes"], "early")
        elif kind == "after-apply":
            self._complete_menu(self.cfg["early_outcomes"], "early")
            self._crash("after-apply", rec)
        elif kind == "fn-entry":
            if rec.get("kind") != "handler":
                self._crash("fn-entry", {"path": fmt_path(rec["path"]), "n": rec["n"]})
        elif kind == "get-state":
            faults = self.cfg["state_faults"]
            if faults:
                k = ex.env_choice("fault", 1 + len(faults))
                if k > 0:
                    name = faults[k - 1]
                    self.env_log.append({"inv": self.inv, "state-fault": name})
                    self.cur["faults"].append({"state_call": rec["n"], "name": name, "tick": ex.tick})
                    raise client_error(name, "GetDurableExecutionState")

    # ------------------------------------------------------------------ one invocation
    def run_invocation(self):
        from aws_durable_execution_sdk_python.execution import durable_execution
        cfg = self.cfg
        modes = cfg["page_modes"]
        first_modes = cfg.get("first_page_modes")   # pagination of the very first invocation's payload (EXECUTION row only)
        if self.inv > 0:
            mode = modes[self.chooser.env("page", len(modes))]
        elif first_modes:
            mode = first_modes[self.chooser.env("page", len(first_modes))]
        else:
            mode = modes[0] if modes[0] in (0, 4) else 0
        event = self.backend.make_event(mode)
        handler = dsl.Interp(self.program, self.world, self).handler()
        wrapped = durable_execution(handler, boto3_client=self.backend)
        res = {}

        def main():
            try:
                res["out"] = wrapped(event, LambdaCtx())
            except Killed:
                raise
            except BaseException as e:  # noqa: BLE001
                res["exc"] = e
            if not self.ex.killed:
                self.cur["tick_return"] = self.ex.next_tick()
                self._crash("after-return", {"after": "return"})

        self.cur = {"n": self.inv, "mode": mode, "tick_start": self.tick_, "faults": [], "crash": None,
                    "first_page_rows": len(event["InitialExecutionState"]["Operations"]),
                    "history_rows": len(self.backend.order),
                    "terminal_at_start": dict(self.backend.terminal_paths())}
        ex = Exec(chooser=self.chooser, policy=cfg["policy"], start=self.clock, horizon=cfg["horizon"],
                  timer_choices=cfg["timer_choices"], stall_menu=cfg.get("stall"), stall_threads=cfg.get("stall_threads"), stall_ops=cfg.get("stall_ops"), tick0=self.tick_,
                  line_files=set(cfg["line_files"]) if cfg["line_files"] else None,
                  max_steps=cfg["max_steps"], grace=cfg["grace"])
        self.ex = ex
        self.running = True
        try:
            ex.run(main)
        finally:
            self.running = False
        self.clock = ex.now
        self.tick_ = ex.tick
        self.steps += ex.steps
        cur = self.cur
        cur["tick_end"] = self.tick_
        cur["end"] = ex.end_reason
        cur["end_detail"] = ex.end_detail if ex.end_reason in ("deadlock", "horizon", "steps") else None
        cur["errors"] = [(n, type(e).__name__, str(e)[:200]) for n, e in ex.errors]
        cur["worker_deaths"] = ex.worker_deaths
        cur["live_at_end"] = [t.name for t in ex.live_at_end]
        t_ret = cur.get("tick_return")
        cur["executing_at_end"] = [dict(path=fmt_path(p), tick=e["tick"], kind=e["kind"])
                                   for p, e in self.world.executing.items()
                                   if p != ("handler",) and (t_ret is None or e["tick"] < t_ret)]
        cur["entered_after_return"] = [dict(path=fmt_path(e["path"]), kind=e["kind"], tick=e["tick"])
                                       for e in self.world.entries
                                       if t_ret is not None and e["inv"] == cur["n"] and e["tick"] > t_ret
                                       and e["kind"] != "handler"]
        self.world.executing.clear()
        if ex.internal_error is not None:
            self.internal = str(ex.internal_error)
            cur["outcome"] = "internal"
        elif ex.end_reason == "crash":
            cur["outcome"] = "crashed"
        elif ex.end_reason in ("deadlock", "horizon", "steps"):
            cur["outcome"] = "hung"
        elif "out" in res:
            cur["outcome"] = "returned"
            cur["out"] = res["out"]
            be = self.backend
            cur["exec_result_at_return"] = be.exec_result is not None
            cur["timers_at_return"] = [(round(t - START, 3), fmt_path(be.path_of.get(i, ("?",))), k)
                                       for t, i, k in be.timers()]
            cur["outstanding_at_return"] = [fmt_path(be.path_of.get(i, ("?",))) for i in be.outstanding()]
            cur["completed_during"] = [fmt_path(be.path_of.get(i, ("?",))) for i in be.async_changes]
            parked = []
            for pk in self.world.parked:
                if pk["inv"] != cur["n"]:
                    continue
                pth = pk["path"][:-1] if pk["path"] and pk["path"][-1] == "result" else pk["path"]
                row = be.row_at(pth)
                parked.append({"path": pk["path"], "op": pk["op"], "tick": pk["tick"], "thread": pk["thread"],
                               "vt": pk.get("vt"), "due": pk.get("due"),
                               "type": row["Type"] if row else None,
                               "status": row["Status"] if row else None})
            cur["parked"] = parked
        elif "exc" in res:
            e = res["exc"]
            cur["outcome"] = "raised"
            cur["exc"] = {"cls": type(e).__name__, "msg": str(e)[:300],
                          "mro": [c.__name__ for c in type(e).__mro__]}
            cur["exc_obj"] = e
        else:
            cur["outcome"] = "hung"
        self.invocations.append(cur)
        return cur

    # ------------------------------------------------------------------ whole execution
    def run(self):
        cfg = self.cfg
        retries = 0
        while True:
            if self.inv >= cfg["max_inv"]:
                self.final = {"status": "MAXINV"}
                break
            cur = self.run_invocation()
            self.inv += 1
            if cur["outcome"] == "internal":
                self.final = {"status": "INTERNAL"}
                break
            if self.backend.unmapped and self.internal is None and not cfg["allow_unmapped"]:
                self.internal = f"cannot map updates to program positions: {self.backend.unmapped[:3]}"
                self.final = {"status": "INTERNAL"}
                break
            if cur["outcome"] == "hung":
                self.final = {"status": "HUNG", "why": cur["end"]}
                break
            if cur["outcome"] == "crashed":
                self.clock += 1.0
                continue
            if cur["outcome"] == "raised":
                retries += 1
                if retries > cfg["max_retries"]:
                    self.final = {"status": "RAISED", "exc": cur["exc"]}
                    break
                self.clock += 1.0
                continue
            out = cur["out"]
            st = out.get("Status") if isinstance(out, dict) else None
            if st in ("SUCCEEDED", "FAILED"):
                self.final = {"status": st, "result": out.get("Result"), "error": out.get("Error")}
                er = self.backend.exec_result
                if er is not None:
                    self.final["exec_record"] = {"action": er["action"], "payload_len": len(er["payload"] or ""),
                                                 "error": er["error"]}
                    if st == "SUCCEEDED" and not out.get("Result"):
                        self.final["result"] = er["payload"]
                    if st == "FAILED" and not out.get("Error"):
                        self.final["error"] = er["error"]
                break
            if st == "PENDING":
                if not self._deliver():
                    self.final = {"status": "STUCK"}
                    break
                continue
            self.final = {"status": "MALFORMED", "out": repr(out)[:300]}
            break
        return self

    def _deliver(self):
        """The environment wakes a PENDING execution. Returns False if nothing can."""
        be = self.backend
        fired = be.refresh()
        if fired:
            # a timer expired while the invocation was finishing: the service re-invokes at once
            self.env_log.append({"after_inv": self.inv - 1, "already-fired": [fmt_path(be.path_of.get(i, ("?",))) for i in fired]})
            return True
        menu = []
        timers = be.timers()
        if timers:
            menu.append(("timer", timers[0]))
        for i in be.outstanding():
            for o in self.cfg["deliver_outcomes"]:
                menu.append(("ext", (i, o)))
        if self.cfg["spurious"] and not self.spurious_used and menu:
            menu.append(("spurious", None))
        if not menu:
            if be.async_changes:
                # a timer/event completed while the last invocation was running; the service
                # re-invokes an execution that is PENDING with unseen completions
                self.env_log.append({"after_inv": self.inv - 1, "completed-during-invocation":
                                     [fmt_path(be.path_of.get(i, ("?",))) for i in be.async_changes]})
                return True
            return False
        k = self.chooser.env("deliver", len(menu))
        kind, arg = menu[k]
        if kind == "timer":
            deadline, i, what = arg
            if deadline > self.clock:
                self.clock = deadline
            self.env_log.append({"after_inv": self.inv - 1, "fire": what,
                                 "path": fmt_path(be.path_of.get(i, ("?",))), "t": round(self.clock - START, 3)})
            be.refresh()
        elif kind == "ext":
            self._complete(*arg)
        else:
            self.spurious_used = True
            self.env_log.append({"after_inv": self.inv - 1, "spurious": True})
            self.clock += 0.5
        self.cur_delivery = (kind, k)
        return True

    # ------------------------------------------------------------------ summaries
    def summary(self):
        invs = []
        for c in self.invocations:
            d = {k: v for k, v in c.items() if k not in ("exc_obj", "terminal_at_start")}
            invs.append(d)
        return {"final": self.final, "invocations": invs, "env": self.env_log,
                "backend": self.backend.snapshot(),
                "updates": [(r.get("inv"), r.get("call"), fmt_path(r["path"] or ("?",)),
                             r["u"]["Type"], r["u"]["Action"], r.get("before"), r.get("after"))
                            for r in self.backend.log],
                "obs": [(o["inv"], fmt_path(o["path"]), o["kind"], o["r"][:120]) for o in self.world.obs],
                "entries": [(e["inv"], fmt_path(e["path"]), e["kind"], e["status"], e["attempt"])
                            for e in self.world.entries if e["kind"] != "handler"]}


def _brief(rec):
    return {k: v for k, v in rec.items() if k in ("n", "path", "after", "ids")}
