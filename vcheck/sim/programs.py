"""Program corpus: units and simplest-first enumeration of sequential compositions."""
from __future__ import annotations

import itertools

T = lambda *v: {"$t": "tuple", "v": list(v)}  # noqa: E731


def U(name):
    """One program unit (a list of DSL ops) by short name."""
    u = {
        "S": [{"k": "step", "fn": {"ret": 1}}],
        "Sv": [{"k": "step", "fn": {"ret": T(1, "a", None)}}],
        "Sm": [{"k": "step", "fn": {"ret": 7}, "sem": "most"}],
        "R": [{"k": "step", "fn": {"fail": 1, "then": {"ret": "ok"}}, "retry": {"table": [1, "no"]}}],
        # at-most-once step whose first attempt fails: the second attempt starts from a READY record
        "Smr": [{"k": "try", "catch": ["CallableRuntimeError"],
                 "body": {"k": "step", "sem": "most", "fn": {"fail": 1, "then": {"ret": "v2"}}, "retry": {"table": [1, "no"]}}}],
        "Psmr": [{"k": "par", "cfg": {"cc": "all_completed"}, "branches": [
            [{"k": "try", "catch": ["CallableRuntimeError"],
              "body": {"k": "step", "sem": "most", "fn": {"fail": 1, "then": {"ret": "v2"}}, "retry": {"table": [1, "no"]}}}],
            [{"k": "step", "fn": {"sleep": 4, "then": {"ret": "slow"}}}]]}],
        "R2": [{"k": "step", "fn": {"fail": 2, "then": {"ret": "ok2"}}, "retry": {"table": [1, 2, "no"]}}],
        "F": [{"k": "try", "catch": ["CallableRuntimeError"],
               "body": {"k": "step", "fn": {"raise": "Boom", "msg": "always"}, "retry": "none"}}],
        # user code inside a step fails with an exception of the SDK's own invocation-error family
        "Fi": [{"k": "try", "catch": ["CallableRuntimeError", "InvocationError", "StepInterruptedError"],
                "body": {"k": "step", "fn": {"raise": "InvocationError", "msg": "from-user-code"}, "retry": "none"}}],
        "Fs": [{"k": "try", "catch": ["CallableRuntimeError", "InvocationError", "StepInterruptedError"],
                "body": {"k": "step", "fn": {"raise": "StepInterruptedError", "msg": "from-user-code"}, "retry": {"table": [1, "no"]}}}],
        "W": [{"k": "wait", "s": 2}],
        "W1": [{"k": "wait", "s": 1}],
        "C": [{"k": "cb"}],
        "Cs": [{"k": "cb", "between": [{"k": "step", "fn": {"ret": "mid"}}]}],
        "K": [{"k": "wfcb", "submit": {"ret": None}}],
        "I": [{"k": "invoke", "payload": {"x": 1}}],
        "N": [{"k": "wfc", "init": 0, "decide": [{"cont": 1}, "stop"]}],
        "N3": [{"k": "wfc", "init": T(), "check": {"fn": "append"}, "decide": [{"cont": 1}, {"cont": 2}, "stop"]}],
        "H": [{"k": "child", "body": [{"k": "step", "fn": {"ret": 5}}, {"k": "wait", "s": 2},
                                      {"k": "step", "fn": {"ret": 6}}]}],
        "Hh": [{"k": "child", "body": [{"k": "child", "body": [{"k": "step", "fn": {"ret": 8}}]},
                                       {"k": "step", "fn": {"ret": 9}}]}],
        "Hf": [{"k": "try", "catch": ["CallableRuntimeError"],
                "body": {"k": "child", "body": [{"k": "step", "fn": {"ret": 1}}, {"k": "raise", "cls": "Bam", "msg": "child-fails"}]}}],
        "P": [{"k": "par", "branches": [[{"k": "step", "fn": {"ret": "A"}}],
                                         [{"k": "step", "fn": {"ret": "B1"}}, {"k": "step", "fn": {"ret": "B2"}}]]}],
        "Pw": [{"k": "par", "branches": [[{"k": "wait", "s": 2}, {"k": "step", "fn": {"ret": "after-wait"}}],
                                          [{"k": "step", "fn": {"sleep": 5, "then": {"ret": "slow"}}}]]}],
        "Pc": [{"k": "par", "branches": [[{"k": "wait", "s": 2}], [{"k": "cb"}]]}],
        # a branch with completed work that is resumed in-process while its sibling is still running
        "Psw": [{"k": "par", "cfg": {"cc": "all_completed"}, "branches": [
            [{"k": "step", "fn": {"ret": "pre"}}, {"k": "wait", "s": 2}, {"k": "step", "fn": {"ret": "post"}}],
            [{"k": "step", "fn": {"sleep": 5, "then": {"ret": "slow"}}}]]}],
        "Prs": [{"k": "par", "cfg": {"cc": "all_completed"}, "branches": [
            [{"k": "step", "fn": {"ret": "pre"}}, {"k": "step", "fn": {"fail": 1, "then": {"ret": "ok"}}, "retry": {"table": [1, "no"]}}],
            [{"k": "step", "fn": {"sleep": 4, "then": {"ret": "slow"}}}]]}],
        # early completion: the operation returns while the other branch still has work in flight
        "Pe": [{"k": "par", "cfg": {"cc": "first"}, "branches": [
            [{"k": "step", "fn": {"ret": "A"}}],
            [{"k": "step", "fn": {"ret": "B1"}}, {"k": "step", "fn": {"ret": "B2"}}]]}],
        "Me": [{"k": "map", "items": [1, 2, 3], "cfg": {"min": 1}, "body": [{"k": "step", "fn": {"item": True}}]}],
        "Sd": [{"k": "step", "fn": {"sleep": 0.12, "then": {"ret": "d"}}}],
        "Hd": [{"k": "child", "body": [{"k": "step", "fn": {"sleep": 0.12, "then": {"ret": "d"}}}]}],
        "M": [{"k": "map", "items": [1, 2], "body": [{"k": "step", "fn": {"item": True}}]}],
        "Mw": [{"k": "map", "items": [1, 2], "body": [{"k": "wait", "s": 2}, {"k": "step", "fn": {"item": True}}]}],
        "Nf": [{"k": "try", "catch": ["Boom", "CallableRuntimeError"],
                "body": {"k": "wfc", "init": 0, "check": {"fn": "inc", "raise_at": 2}, "decide": [{"cont": 1}, {"cont": 1}, "stop"]}}],
        "Big": [{"k": "child", "body": [{"k": "step", "fn": {"ret": "s1"}}, {"k": "step", "fn": {"ret": "s2"}}], "big": 270_000}],
    }
    import copy
    return copy.deepcopy(u[name])


FULL = ["S", "Sv", "Sm", "R", "F", "W", "C", "Cs", "K", "I", "N", "H", "P", "M"]
REDUCED = ["S", "R", "W", "C", "H", "P"]
NESTED = ["Hh", "Hf", "Pw", "Pc", "Mw", "N3", "R2", "Nf", "Big", "Psw", "Prs"]
CONCURRENT = {"P", "Pw", "Pc", "M", "Mw", "Psw", "Prs", "Pe", "Me", "Psmr"}


def program(names):
    seq = []
    for n in names:
        seq.extend(U(n))
    return {"name": "+".join(names), "seq": seq}


def corpus(max_len_full=2, max_len_reduced=3, extra=NESTED):
    """Simplest-first list of programs."""
    out = []
    seen = set()
    for L in range(1, max_len_full + 1):
        for names in itertools.product(FULL, repeat=L):
            if names not in seen:
                seen.add(names)
                out.append(program(names))
    for L in range(max_len_full + 1, max_len_reduced + 1):
        for names in itertools.product(REDUCED, repeat=L):
            if names not in seen:
                seen.add(names)
                out.append(program(names))
    for n in extra:
        out.append(program((n,)))
        for m in ("S", "W"):
            out.append(program((n, m)))
            out.append(program((m, n)))
    return out


def is_concurrent(prog):
    return any(n in CONCURRENT for n in prog["name"].split("+"))
