"""Workflow DSL: JSON programs interpreted against the real DurableContext.

Every operation is named by its structural path ("p:2.b1.1"), so backend rows, updates,
log records and observations can be joined without touching SDK internals.  A World object
survives across invocations and plays the external systems.
"""
from __future__ import annotations

import datetime
import decimal
import json
import uuid

from vcheck.vsched import core, prims
from vcheck.vsched.core import Killed

from .backend import fmt_path


# ----------------------------------------------------------------------------- values
def dec(v):
    """Decode a DSL value into a Python value."""
    if isinstance(v, dict):
        if "$t" in v:
            t, x = v["$t"], v.get("v")
            if t == "tuple":
                return tuple(dec(e) for e in x)
            if t == "dec":
                return decimal.Decimal(x)
            if t == "bytes":
                return bytes.fromhex(x)
            if t == "dt":
                return datetime.datetime.fromisoformat(x)
            if t == "date":
                return datetime.date.fromisoformat(x)
            if t == "uuid":
                return uuid.UUID(x)
            if t == "float":
                return float(x)
            if t == "str*":
                return x[0] * x[1]
            raise ValueError(f"bad DSL value tag {t}")
        return {k: dec(e) for k, e in v.items()}
    if isinstance(v, list):
        return [dec(e) for e in v]
    return v


def render(v, depth=0):
    """Canonical typed rendering: equal renderings <=> same types at every level and equal values."""
    from aws_durable_execution_sdk_python.concurrency.models import BatchResult
    t = type(v)
    if v is None:
        return "None"
    if t is bool:
        return f"bool:{v}"
    if t is int:
        return f"int:{v}"
    if t is float:
        return f"float:{v!r}"
    if t is str:
        return f"str:{v!r}" if len(v) <= 64 else f"str[{len(v)}]:{v[:16]!r}..{hash_str(v)}"
    if t is bytes:
        return f"bytes:{v.hex()}"
    if t is decimal.Decimal:
        return f"Decimal:{v.as_tuple()!r}"
    if t is datetime.datetime:
        return f"datetime:{v.isoformat()}|{v.tzinfo!r}"
    if t is datetime.date:
        return f"date:{v.isoformat()}"
    if t is uuid.UUID:
        return f"UUID:{v}"
    if t is tuple:
        return "tuple(" + ",".join(render(e, depth + 1) for e in v) + ")"
    if t is list:
        return "list[" + ",".join(render(e, depth + 1) for e in v) + "]"
    if t is dict:
        return "dict{" + ",".join(sorted(f"{render(k)}=>{render(e, depth + 1)}" for k, e in v.items())) + "}"
    if isinstance(v, BatchResult):
        items = []
        for it in v.all:
            err = None
            if it.error is not None:
                err = f"{it.error.type}:{it.error.message}"
            items.append(f"({it.index},{it.status.value},{render(it.result, depth + 1)},{err})")
        return f"BatchResult[{v.completion_reason.value}](" + ",".join(items) + ")"
    return f"{t.__module__}.{t.__qualname__}:{v!r}"


def hash_str(s):
    import hashlib
    return hashlib.blake2b(s.encode("utf-8", "surrogatepass"), digest_size=6).hexdigest()


def render_exc(e):
    return f"exc:{type(e).__name__}:{e}"


# ----------------------------------------------------------------------------- user exceptions
class Boom(Exception):
    pass


class Bam(Exception):
    pass


class DataErr(Exception):
    """An ordinary user exception that happens to carry attributes named like ErrorObject fields."""

    def __init__(self, msg, data=b"\x00raw", stack_trace=("not", "a", "trace")):
        super().__init__(msg)
        self.data = data
        self.stack_trace = stack_trace


class DataErrSet(DataErr):
    def __init__(self, msg):
        super().__init__(msg, data={1, 2}, stack_trace={"k": object()})


def exc_class(name):
    from aws_durable_execution_sdk_python import exceptions as X
    table = {"Boom": Boom, "Bam": Bam, "DataErr": DataErr, "DataErrSet": DataErrSet, "ValueError": ValueError, "KeyError": KeyError,
             "RuntimeError": RuntimeError, "TypeError": TypeError}
    if name in table:
        return table[name]
    return getattr(X, name)


def _user_mutates(v):
    if isinstance(v, list):
        v.append("user-mutation")
    elif isinstance(v, dict):
        v["user-mutation"] = True
        for x in list(v.values()):
            if isinstance(x, (list, dict)):
                _user_mutates(x)


def make_exc(name, msg):
    from aws_durable_execution_sdk_python import exceptions as X
    cls = exc_class(name)
    if cls is X.CallableRuntimeError:
        return cls(msg, "UserType", None, None)
    if cls is X.CheckpointError:
        return cls(msg, X.CheckpointErrorCategory.INVOCATION)
    return cls(msg)


# ----------------------------------------------------------------------------- world
class World:
    """Survives across the invocations of one execution."""

    def __init__(self, driver):
        self.d = driver
        self.entries = []      # function entries
        self.exits = []
        self.executing = {}    # path -> entry dict (functions running right now)
        self.strat_calls = []  # retry strategy consultations
        self.wfc_calls = []    # wait strategy consultations
        self.logs = []         # captured context-logger records
        self.cbids = []        # callback ids handed to user code
        self.obs = []          # deliveries to user code
        self.parked = []       # positions at which user code saw a suspension (inv, path, tick)
        self.log_calls = []    # log calls user code made (whether or not they were emitted)

    def enter(self, path, kind, **extra):
        d = self.d
        row = d.backend.row_at(path)
        n = sum(1 for e in self.entries if e["path"] == path) + 1
        ent = {"path": path, "kind": kind, "inv": d.inv, "tick": d.tick(), "n": n,
               "vt": round(d.now() - 1_700_000_000.0, 4),
               "status": row["Status"] if row else None,
               "attempt": ((row.get("StepDetails") or {}).get("Attempt", 0) if row else 0),
               "replay_children": bool(row and (row.get("ContextDetails") or {}).get("ReplayChildren")),
               "thread": core.cur().me().name}
        ent.update(extra)
        self.entries.append(ent)
        self.executing[path] = ent
        d.site("fn-entry", ent)
        return ent

    def exit(self, path, how="ret", returned=None):
        ent = self.executing.pop(path, None)
        if ent is not None:
            ent["exit"] = how
            ent["exit_tick"] = self.d.tick()
            ent["exit_vt"] = round(self.d.now() - 1_700_000_000.0, 4)
            if returned is not None:
                ent["returned"] = returned
        self.exits.append({"path": path, "inv": self.d.inv, "tick": self.d.tick(), "how": how,
                           "entry_tick": ent["tick"] if ent else None})

    def observe(self, path, kind, rendered, **extra):
        op_path = path[:-1] if path and path[-1] == "result" else path
        row = self.d.backend.row_at(op_path)
        rec = {"inv": self.d.inv, "tick": self.d.tick(), "path": path, "kind": kind, "r": rendered,
               "vt": round(self.d.now() - 1_700_000_000.0, 4),
               "row_status": row["Status"] if row else None,
               "thread": core.cur().me().name}
        rec.update(extra)
        self.obs.append(rec)


class CapLog:
    """LoggerInterface capturing records."""

    def __init__(self, world):
        self.w = world

    def _l(self, lvl, msg, *a, extra=None):
        self.w.logs.append({"inv": self.w.d.inv, "tick": self.w.d.tick(), "level": lvl,
                            "msg": str(msg), "extra": dict(extra or {})})

    def debug(self, msg, *a, extra=None):
        self._l("debug", msg, *a, extra=extra)

    def info(self, msg, *a, extra=None):
        self._l("info", msg, *a, extra=extra)

    def warning(self, msg, *a, extra=None):
        self._l("warning", msg, *a, extra=extra)

    def error(self, msg, *a, extra=None):
        self._l("error", msg, *a, extra=extra)

    def exception(self, msg, *a, extra=None):
        self._l("exception", msg, *a, extra=extra)


class PrefixSerDes:
    """A custom SerDes (JSON with a marker prefix) for checks that need one."""

    def __new__(cls, broken_from=None, inv=lambda: 0):
        from aws_durable_execution_sdk_python.serdes import SerDes

        class _P(SerDes):
            def serialize(self, value, ctx):
                return "PFX" + json.dumps(value)

            def deserialize(self, data, ctx):
                if broken_from is not None and inv() >= broken_from:
                    # e.g. a new deployment whose decoder no longer accepts what an earlier one wrote
                    raise ValueError(f"decoder of invocation {inv()} rejects the recorded payload")
                if not data.startswith("PFX"):
                    raise ValueError("not PFX data")
                return json.loads(data[3:])
        return _P()


# ----------------------------------------------------------------------------- interpreter
class Interp:
    def __init__(self, program, world, driver):
        self.prog = program
        self.w = world
        self.d = driver

    # ---- helpers
    def _name(self, path):
        return "p:" + fmt_path(path)

    def _beh(self, beh, path, ent, item=None):
        """Run a user-function behaviour."""
        if beh is None:
            return None
        if "sleep" in beh:
            if beh["sleep"] == "forever":
                core.cur().block(lambda: False, None, on=("user", "forever"))
            else:
                prims.vtime.sleep(beh["sleep"])
            return self._beh(beh.get("then", {"ret": None}), path, ent, item)
        if "item_sleep" in beh:   # map bodies: the function of item i runs item_sleep[i] seconds
            d_ = beh["item_sleep"][item if isinstance(item, int) else 0]
            if d_:
                prims.vtime.sleep(d_)
            return self._beh(beh.get("then", {"ret": None}), path, ent, item)
        if "fail" in beh:
            attempt = ent["attempt"] + 1
            if attempt <= beh["fail"]:
                raise make_exc(beh.get("cls", "Boom"), f"fail-{attempt}")
            return self._beh(beh.get("then", {"ret": None}), path, ent, item)
        if "raise" in beh:
            raise make_exc(beh["raise"], "x" * beh["msg_pad"] if "msg_pad" in beh else beh.get("msg", "boom"))
        if "bytes" in beh:
            return beh.get("char", "x") * beh["bytes"]
        if "item" in beh:
            return ["item", item]
        if "obj" in beh:
            return object()
        return dec(beh.get("ret"))

    def _strategy(self, spec, path):
        from aws_durable_execution_sdk_python.config import Duration
        from aws_durable_execution_sdk_python.retries import (
            RetryDecision, RetryPresets, RetryStrategyConfig, create_retry_strategy)
        if spec is None or spec == "default":
            return None
        if spec == "none":
            return RetryPresets.none()
        if "packaged" in spec:
            p = spec["packaged"]
            from aws_durable_execution_sdk_python.config import JitterStrategy
            inner = create_retry_strategy(RetryStrategyConfig(
                max_attempts=p.get("max_attempts", 3),
                initial_delay=Duration(seconds=p.get("initial", 1)),
                max_delay=Duration(seconds=p.get("max", 10)),
                backoff_rate=p.get("rate", 2),
                jitter_strategy=JitterStrategy(p.get("jitter", "NONE"))))

            def wrapped(error, attempts_made):
                dcs = inner(error, attempts_made)
                self.w.strat_calls.append({"path": path, "inv": self.d.inv, "tick": self.d.tick(),
                                           "err": type(error).__name__, "attempts_made": attempts_made,
                                           "retry": dcs.should_retry, "delay": dcs.delay_seconds})
                return dcs
            return wrapped
        table = spec["table"]
        only = spec.get("only")

        def strat(error, attempts_made):
            idx = attempts_made - 1
            if only is not None and type(error).__name__ not in only:
                dcs = RetryDecision.no_retry()
            elif idx < 0 or idx >= len(table) or table[idx] == "no":
                dcs = RetryDecision.no_retry()
            else:
                dcs = RetryDecision.retry(Duration(seconds=table[idx]))
                if spec.get("ctor"):   # built with the dataclass constructor rather than the factory
                    dcs = RetryDecision(should_retry=True, delay=Duration(seconds=table[idx]))
            self.w.strat_calls.append({"path": path, "inv": self.d.inv, "tick": self.d.tick(),
                                       "err": type(error).__name__, "attempts_made": attempts_made,
                                       "retry": dcs.should_retry, "delay": dcs.delay_seconds})
            return dcs
        return strat

    def _serdes(self, spec):
        if spec == "prefix":
            return PrefixSerDes()
        if isinstance(spec, dict) and "prefix_broken_from" in spec:
            return PrefixSerDes(broken_from=spec["prefix_broken_from"], inv=lambda: self.d.inv)
        return None

    # ---- sequences
    def run_seq(self, ctx, seq, base, item=None):
        """Run ops in `seq` on context `ctx`; `base` is the structural path of the context."""
        out = []
        counter = [0]
        for op in seq:
            out.extend(self._run_op(ctx, op, base, counter, item))
        return out

    def _deliver(self, path, thunk, kind):
        """Call an SDK operation and record what it delivers to user code."""
        try:
            v = thunk()
        except Killed:
            raise
        except Exception as e:
            self.w.observe(path, "exc", render_exc(e), op=kind,
                           invocation_error=_is_invocation_error(e))
            raise
        except BaseException as e:
            if not core.cur().killed:
                self.w.observe(path, "abort", type(e).__name__, op=kind)
                if type(e).__name__ in ("SuspendExecution", "TimedSuspendExecution"):
                    sched = getattr(e, "scheduled_timestamp", None)
                    self.w.parked.append({"inv": self.d.inv, "path": path, "tick": self.d.tick(),
                                          "thread": core.cur().me().name, "op": kind,
                                          "vt": round(self.d.now() - 1_700_000_000.0, 4),
                                          "due": None if sched is None else round(sched - 1_700_000_000.0, 4)})
            raise
        extra = {}
        if kind in ("parallel", "map"):
            extra["batch"] = _batch_struct(v)
        self.w.observe(path, "ret", render(v), op=kind, **extra)
        return v

    def _run_op(self, ctx, op, base, counter, item):
        from aws_durable_execution_sdk_python.config import (
            CallbackConfig, ChildConfig, CompletionConfig, Duration, InvokeConfig, MapConfig,
            ParallelConfig, StepConfig, StepSemantics, WaitForCallbackConfig)
        from aws_durable_execution_sdk_python.waits import WaitForConditionConfig, WaitForConditionDecision
        k = op["k"]
        w = self.w
        if k == "log":
            w.log_calls.append({"inv": self.d.inv, "label": op["label"], "where": "gap", "tick": self.d.tick(),
                                "after_ops": counter[0] if base == () else None})
            ctx.logger.info(op["label"])
            return []
        if k == "sleep":
            if op["d"] == "forever":
                core.cur().block(lambda: False, None, on=("user", "forever"))
            else:
                prims.vtime.sleep(op["d"])
            return []
        if k == "raise":
            raise make_exc(op["cls"], op.get("msg", "boom"))
        if k == "try":
            snap = counter[0]
            try:
                return self._run_op(ctx, op["body"], base, counter, item)
            except Exception as e:
                if _is_invocation_error(e) or type(e).__name__ not in op["catch"]:
                    raise
                if counter[0] == snap:
                    counter[0] = snap + 1
                return [("caught", type(e).__name__, str(e))]
        counter[0] += 1
        path = base + (counter[0],)
        name = self._name(path)
        if k == "step":
            beh = op.get("fn", {"ret": None})
            sem = StepSemantics.AT_MOST_ONCE_PER_RETRY if op.get("sem") == "most" else StepSemantics.AT_LEAST_ONCE_PER_RETRY
            cfg = StepConfig(retry_strategy=self._strategy(op.get("retry"), path), step_semantics=sem,
                             serdes=self._serdes(op.get("serdes")))

            def fn(step_ctx):
                ent = w.enter(path, "step")
                if op.get("log"):
                    w.log_calls.append({"inv": self.d.inv, "label": op["log"], "where": "step", "path": path,
                                        "name": name, "attempt": ent["attempt"] + 1, "tick": self.d.tick()})
                    step_ctx.logger.info(op["log"])
                try:
                    r = self._beh(beh, path, ent, item)
                except Killed:
                    raise
                except BaseException:
                    w.exit(path, "raise")
                    raise
                w.exit(path, returned=render(r))
                return r
            v = self._deliver(path, lambda: ctx.step(fn, name=name, config=cfg), "step")
            if op.get("mutate"):
                _user_mutates(v)   # user code owns what it was given (recorded above, before the mutation)
            return [v]
        if k == "wait":
            return [self._deliver(path, lambda: ctx.wait(Duration(seconds=op["s"]), name=name), "wait")]
        if k == "cb":
            ccfg = CallbackConfig(timeout=Duration(seconds=op.get("timeout", 0)), serdes=self._serdes(op.get("serdes")))
            cb = self._deliver(path, lambda: ctx.create_callback(name=name, config=ccfg), "create_callback")
            w.cbids.append({"path": path, "inv": self.d.inv, "id": cb.callback_id})
            vals = []
            for sub in op.get("between", []):
                vals.extend(self._run_op(ctx, sub, base, counter, item))
            vals.append(self._deliver(path + ("result",), cb.result, "callback.result"))
            return vals
        if k == "wfcb":
            beh = op.get("submit", {"ret": None})
            wcfg = WaitForCallbackConfig(timeout=Duration(seconds=op.get("timeout", 0)),
                                         retry_strategy=self._strategy(op.get("retry"), path + (2,)),
                                         serdes=self._serdes(op.get("serdes")))

            def submitter(callback_id, wf_ctx):
                ent = w.enter(path + (2,), "submitter")
                w.cbids.append({"path": path + (1,), "inv": self.d.inv, "id": callback_id, "via": "submitter"})
                if op.get("log"):
                    w.log_calls.append({"inv": self.d.inv, "label": op["log"], "where": "submitter", "path": path + (2,),
                                        "tick": self.d.tick()})
                    wf_ctx.logger.info(op["log"])
                try:
                    self._beh(beh, path + (2,), ent, item)
                except Killed:
                    raise
                except BaseException:
                    w.exit(path + (2,), "raise")
                    raise
                w.exit(path + (2,))
            return [self._deliver(path, lambda: ctx.wait_for_callback(submitter, name=name, config=wcfg), "wait_for_callback")]
        if k == "invoke":
            icfg = InvokeConfig(timeout=Duration(seconds=op.get("timeout", 0)), tenant_id=op.get("tenant"),
                                serdes_payload=self._serdes(op.get("serdes_payload")),
                                serdes_result=self._serdes(op.get("serdes_result")))
            return [self._deliver(path, lambda: ctx.invoke(op.get("fn", "target-fn"), dec(op.get("payload")),
                                                           name=name, config=icfg), "invoke")]
        if k == "wfc":
            decide = op["decide"]
            fspec = op.get("check", {"fn": "inc"})

            def strategy(state, attempt):
                idx = attempt - 1
                if idx < 0 or idx >= len(decide) or decide[idx] == "stop":
                    dcs = WaitForConditionDecision.stop_polling()
                else:
                    dcs = WaitForConditionDecision.continue_waiting(Duration(seconds=decide[idx]["cont"]))
                    if decide[idx].get("ctor"):   # the decision built with the dataclass constructor, not the factory
                        dcs = WaitForConditionDecision(should_continue=True, delay=Duration(seconds=decide[idx]["cont"]))
                w.wfc_calls.append({"path": path, "inv": self.d.inv, "tick": self.d.tick(),
                                    "state": render(state), "attempt": attempt,
                                    "cont": dcs.should_continue, "delay": dcs.delay_seconds})
                return dcs

            def check(state, cctx):
                ent = w.enter(path, "check", state=render(state))
                if op.get("log"):
                    w.log_calls.append({"inv": self.d.inv, "label": op["log"], "where": "check", "path": path,
                                        "name": name, "attempt": ent["attempt"] + 1, "tick": self.d.tick()})
                    cctx.logger.info(op["log"])
                try:
                    r = _check_fn(fspec, state, ent)
                except Killed:
                    raise
                except BaseException:
                    w.exit(path, "raise")
                    raise
                w.exit(path, returned=render(r))
                return r
            wc = WaitForConditionConfig(wait_strategy=strategy, initial_state=dec(op.get("init", 0)),
                                        serdes=self._serdes(op.get("serdes")))
            return [self._deliver(path, lambda: ctx.wait_for_condition(check, wc, name=name), "wait_for_condition")]
        if k == "child":
            body = op["body"]

            def child_fn(cctx):
                ent = w.enter(path, "child")
                try:
                    vals = self.run_seq(cctx, body, path, item)
                except Killed:
                    raise
                except BaseException:
                    w.exit(path, "raise")
                    raise
                if "ret" in op:
                    vals = dec(op["ret"])
                elif op.get("big"):
                    vals = vals + [op.get("big_char", "x") * op["big"]]
                w.exit(path, returned=render(vals))
                return vals
            summ = (lambda r: json.dumps({"summary": True})) if op.get("summary") else None
            ccfg = ChildConfig(summary_generator=summ, serdes=self._serdes(op.get("serdes")))
            return [self._deliver(path, lambda: ctx.run_in_child_context(child_fn, name=name, config=ccfg), "child")]
        if k == "shared_par":
            # sibling branches that issue operations on the ENCLOSING context (its call counter is shared
            # between threads); every operation is named by a label, its index depends on arrival order
            labels = op["labels"]

            def mk(label):
                def run(_bctx):
                    spath = (f"shared{label}",)

                    def fn(step_ctx):
                        ent = w.enter(spath, "step")
                        w.exit(spath, returned=render(label))
                        return label
                    return self._deliver(spath, lambda: ctx.step(fn, name="p:shared" + label), "step")
                return run
            return [self._deliver(path, lambda: ctx.parallel([mk(x) for x in labels], name=name,
                                                               config=ParallelConfig(completion_config=CompletionConfig.all_completed())),
                                  "parallel")]
        if k in ("par", "map"):
            c = op.get("cfg", {})
            cc = None
            if c.get("cc") == "first":
                cc = CompletionConfig.first_successful()
            elif c.get("cc") == "all_completed":
                cc = CompletionConfig.all_completed()
            elif c.get("cc") == "all_successful":
                cc = CompletionConfig.all_successful()
            elif any(x in c for x in ("min", "tol_n", "tol_pct")) or c.get("cc") == "empty":
                cc = CompletionConfig(min_successful=c.get("min"), tolerated_failure_count=c.get("tol_n"),
                                      tolerated_failure_percentage=c.get("tol_pct"))
            summ = None
            if c.get("summary") == "custom":
                summ = lambda r: json.dumps({"summary": True})  # noqa: E731

            def branch_fn(bi, body):
                bpath = path + (f"b{bi}",)

                def run(bctx, it=None):
                    ent = w.enter(bpath, "branch")
                    try:
                        vals = self.run_seq(bctx, body, bpath, it)
                    except Killed:
                        raise
                    except BaseException:
                        w.exit(bpath, "raise")
                        raise
                    if op.get("branch_ret") == "last":   # the branch returns its last operation's value itself, not a list
                        vals = vals[-1] if vals else None
                    w.exit(bpath, returned=render(vals))
                    return vals
                return run
            if k == "par":
                kwargs = {"max_concurrency": c.get("maxc")}
                if cc is not None:
                    kwargs["completion_config"] = cc
                if summ is not None:
                    kwargs["summary_generator"] = summ
                use_cfg = bool(c) or op.get("force_cfg")
                if c.get("summary") == "default":
                    from aws_durable_execution_sdk_python.operation.parallel import ParallelSummaryGenerator
                    kwargs["summary_generator"] = ParallelSummaryGenerator()
                pcfg = ParallelConfig(**kwargs) if use_cfg else None
                fns = [branch_fn(i, b) for i, b in enumerate(op["branches"])]
                return [self._deliver(path, lambda: ctx.parallel(fns, name=name, config=pcfg), "parallel")]
            items = [dec(x) for x in op["items"]]
            kwargs = {"max_concurrency": c.get("maxc")}
            if cc is not None:
                kwargs["completion_config"] = cc
            if summ is not None:
                kwargs["summary_generator"] = summ
            if c.get("summary") == "default":
                from aws_durable_execution_sdk_python.operation.map import MapSummaryGenerator
                kwargs["summary_generator"] = MapSummaryGenerator()
            mcfg = MapConfig(**kwargs) if (c or op.get("force_cfg")) else None
            runners = {}

            def map_fn(mctx, it, index, all_items):
                r = runners.get(index)
                if r is None:
                    r = runners[index] = branch_fn(index, op["body"])
                return r(mctx, it)
            return [self._deliver(path, lambda: ctx.map(items, map_fn, name=name, config=mcfg), "map")]
        raise ValueError(f"unknown DSL op {k}")

    # ---- handler
    def handler(self):
        prog = self.prog
        w = self.w

        def handle(event, context):
            w.enter(("handler",), "handler")
            context.set_logger(CapLog(w))
            vals = self.run_seq(context, prog["seq"], ())
            w.exit(("handler",))
            ret = prog.get("ret")
            if ret is not None:
                if "raise" in ret:
                    if "pad_to" in ret:
                        base = len(json.dumps({"Status": "FAILED", "Error": {"ErrorMessage": "", "ErrorType": ret["raise"]}}))
                        raise make_exc(ret["raise"], "x" * max(0, ret["pad_to"] - base))
                    raise make_exc(ret["raise"], ret.get("msg", "handler-boom"))
                if "pad_to" in ret:
                    out = {"r": [render(v) for v in vals], "pad": ""}
                    out["pad"] = "x" * max(0, ret["pad_to"] - len(json.dumps(out)))
                    return out
                if "obj" in ret:
                    return object()
                if "pad" in ret:
                    return {"r": [render(v) for v in vals], "pad": "x" * ret["pad"]}
                if "val" in ret:
                    return dec(ret["val"])
            return {"r": [render(v) for v in vals]}
        return handle


def _batch_struct(v):
    try:
        return {"reason": v.completion_reason.value,
                "items": [{"index": it.index, "status": it.status.value, "result": render(it.result),
                           "err_type": it.error.type if it.error else None,
                           "err_msg": it.error.message if it.error else None} for it in v.all]}
    except Exception as e:  # noqa: BLE001
        return {"malformed": f"{type(e).__name__}: {e}"}


def _check_fn(spec, state, ent):
    f = spec.get("fn", "inc")
    if "raise_at" in spec and ent["attempt"] + 1 == spec["raise_at"]:
        raise make_exc(spec.get("cls", "Boom"), "check-failed")
    if "unser_at" in spec and ent["attempt"] + 1 == spec["unser_at"]:
        return object()   # a state the configured serialization cannot store
    if f == "inc":
        if isinstance(state, bool) or not isinstance(state, int):
            return state
        return state + 1
    if f == "append":
        if isinstance(state, tuple):
            return state + (len(state),)
        if isinstance(state, list):
            return state + [len(state)]
        return state
    if f == "dictinc":
        if isinstance(state, dict):
            d = dict(state)
            d["n"] = d.get("n", 0) + 1
            return d
        return state
    if f == "dictinc-inplace":
        if isinstance(state, dict):
            state["n"] = state.get("n", 0) + 1     # mutates and returns the very object it was given
        return state
    if f == "append-inplace":
        if isinstance(state, list):
            state.append(len(state))
        return state
    if f == "nonecycle":
        # "not visible yet" (None) on the first two polls, then a record that counts up
        a = ent["attempt"] + 1
        if a <= 2:
            return None
        return {"seen": repr(state), "poll": a}
    if f == "id":
        return state
    if f == "none":
        return None
    raise ValueError(f)


def _is_invocation_error(e):
    from aws_durable_execution_sdk_python.exceptions import InvocationError
    return isinstance(e, InvocationError)


def _jsonable(vals):
    """Branch/child results: keep python values (they must round-trip through the default serdes)."""
    return vals


def count_ops(seq):
    n = 0
    for op in seq:
        n += 1
        for key in ("body", "between"):
            b = op.get(key)
            if isinstance(b, list):
                n += count_ops(b)
            elif isinstance(b, dict):
                n += count_ops([b])
        for b in op.get("branches", []):
            n += count_ops(b)
    return n
