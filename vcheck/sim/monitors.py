"""Oracles (judges) over a finished Driver run.  Each returns a list of violation dicts
{"sig": <signature>, "msg": <text>}.  Signatures name the oracle clause and only the
structural features that make it fail, so different violations get different signatures."""
from __future__ import annotations

from .backend import TERMINAL, fmt_path

USER_FN_KINDS = ("step", "check", "submitter", "child", "branch")


def V(out, prop, clause, msg, **feat):
    f = "/".join(f"{k}={v}" for k, v in sorted(feat.items()))
    out.append({"sig": f"{prop}/{clause}" + (("/" + f) if f else ""), "msg": msg})


def _is_prefix(p, q):
    return len(p) < len(q) and tuple(q[:len(p)]) == tuple(p)


def _optype(d, path):
    row = d.backend.row_at(path)
    if not row:
        return None
    return (row.get("SubType") or row["Type"])


# ============================================================================= C11
def judge_c11(d, _=None):
    out = []
    be = d.backend
    exec_seen = None
    for n, r in enumerate(be.log):
        if r.get("external"):
            continue
        u = r["u"]
        t, a = u["Type"], u["Action"]
        p = fmt_path(r["path"] or ("?",))
        if exec_seen is not None:
            V(out, "C11", "update-after-execution-record",
              f"update {t} {a} for {p} was sent after the EXECUTION result record (log index {n})", type=t, action=a)
        if t == "EXECUTION":
            if exec_seen is not None:
                V(out, "C11", "execution-record-twice", "a second EXECUTION result record was sent")
            exec_seen = n
            continue
        before = r.get("before")
        if before in TERMINAL:
            V(out, "C11", "update-after-terminal",
              f"{t} {a} for {p} sent in invocation {r['inv']} although the backend already held it as {before}",
              type=t, action=a, held=before)
            continue
        if a == "START":
            if before == "STARTED":
                V(out, "C11", "second-start-in-attempt",
                  f"{t} START for {p} sent although the operation was already STARTED (invocation {r['inv']})", type=t)
        elif a in ("RETRY", "SUCCEED", "FAIL"):
            if before is None:
                V(out, "C11", "outcome-without-start", f"{t} {a} for {p} sent before any START", type=t, action=a)
        parent = u.get("ParentId")
        if before is None and parent:
            prow = be.rows.get(parent)
            started_before = any((x["id"] == parent and not x.get("external")) for x in be.log[:n])
            if prow is None or not started_before:
                V(out, "C11", "child-before-parent-start",
                  f"first update of {p} ({t} {a}) precedes its parent context's START", type=t)
    return out


# ============================================================================= C01
def judge_c01(d, _=None):
    out = []
    w = d.world
    be = d.backend
    for e in w.entries:
        if e["kind"] not in USER_FN_KINDS:
            continue
        if e["status"] in TERMINAL:
            if e["kind"] in ("child", "branch") and e["replay_children"]:
                continue
            V(out, "C01", "function-entered-for-completed-operation",
              f"{e['kind']} function at {fmt_path(e['path'])} entered in invocation {e['inv']} "
              f"(thread {e['thread']}) although the backend held the operation as {e['status']}",
              kind=e["kind"], held=e["status"])
    # deliveries at positions whose operation was terminal when the invocation began
    inv_by_n = {i["n"]: i for i in d.invocations}
    truth = ground_truth(d)
    for o in w.obs:
        if o["kind"] == "abort" and o["r"] == "Killed":
            continue
        path = o["path"]
        op_path = path[:-1] if path and path[-1] == "result" else path
        inv = inv_by_n.get(o["inv"])
        if inv is None:
            continue
        held = inv["terminal_at_start"].get(op_path)
        if held is None:
            continue
        if o["op"] == "create_callback":
            continue  # returns the callback handle whatever the outcome (C14)
        if held == "SUCCEEDED":
            if o["kind"] != "ret":
                V(out, "C01", "recorded-success-not-delivered",
                  f"{o['op']} at {fmt_path(path)} was SUCCEEDED before invocation {o['inv']} began but the call "
                  f"delivered {o['kind']} {o['r']}", op=o["op"], got=o["kind"])
            elif op_path in truth and truth[op_path][0] == "ret" and truth[op_path][1] != o["r"]:
                V(out, "C01", "recorded-result-differs",
                  f"{o['op']} at {fmt_path(path)}: recorded outcome is {truth[op_path][1]} but the replayed call "
                  f"returned {o['r']}", op=o["op"])
        else:
            if o["kind"] == "ret":
                V(out, "C01", "recorded-failure-not-raised",
                  f"{o['op']} at {fmt_path(path)} was {held} before invocation {o['inv']} began but the call "
                  f"returned {o['r']}", op=o["op"], held=held)
    return out


def ground_truth(d):
    """What each completed operation's recorded outcome is, from the world's own knowledge:
    path -> ("ret", rendering) for operations whose user function returned normally right
    before the terminal record."""
    truth = {}
    for e in d.world.entries:
        if e["kind"] in ("step", "child", "branch", "check") and e.get("exit") == "ret" and "returned" in e:
            if d.backend.status_at(e["path"]) == "SUCCEEDED":
                truth[e["path"]] = ("ret", e["returned"])
    return truth


# ============================================================================= C02
def judge_c02(d, base=None):
    out = []
    first = {}
    for o in d.world.obs:
        if o["kind"] not in ("ret", "exc"):
            continue
        if o["kind"] == "exc" and o.get("invocation_error"):
            continue
        if o["op"] == "create_callback":
            continue
        key = o["path"]
        if key not in first:
            first[key] = o
            continue
        f = first[key]
        if (f["kind"], f["r"]) != (o["kind"], o["r"]):
            V(out, "C02", "first-vs-replay",
              f"{o['op']} at {fmt_path(key)} delivered {f['kind']} {f['r']} when it first completed "
              f"(invocation {f['inv']}) and {o['kind']} {o['r']} on replay (invocation {o['inv']})",
              kind=o["op"], first=_cls(f), replay=_cls(o))
    if base is not None and d.final is not None:
        fk = _final(d.final)
        if fk != base:
            feat = {"got": fk[0], "want": base[0]}
            feat.update(_final_diff(d, fk, base))
            V(out, "C02", "final-outcome-depends-on-interruptions",
              f"final outcome {fk} differs from the uninterrupted run's {base}", **feat)
    return out


def _final_diff(d, got, want):
    """Which top-level operation's delivery differs between two SUCCEEDED finals."""
    import json
    try:
        g = json.loads(got[1])["r"]
        w = json.loads(want[1])["r"]
    except Exception:  # noqa: BLE001
        return {}
    for i, (a, b) in enumerate(zip(g, w)):
        if a != b:
            kinds = {o["op"] for o in d.world.obs if o["path"][:1] == (i + 1,) and len(o["path"]) == 1}
            return {"kind": "+".join(sorted(kinds)) or "?", "replay": _rcls(a), "first": _rcls(b)}
    return {"len": f"{len(g)}vs{len(w)}"}


def _rcls(r):
    if r.startswith("tuple(str:'caught',str:'"):
        return r.split("str:'")[2].split("'")[0]
    return "value"


def _cls(o):
    if o["kind"] == "ret":
        return "value"
    name = o["r"].split(":")[1]
    return name


def _final(f):
    e = f.get("error")
    return (f.get("status"), f.get("result"),
            (e or {}).get("ErrorType") if isinstance(e, dict) else None,
            (e or {}).get("ErrorMessage") if isinstance(e, dict) else None)


# ============================================================================= C03
EXEMPT_EXC = ("ExecutionError", "ValidationError", "InvalidStateError", "SerDesError",
              "NonDeterministicExecutionError", "CallbackError", "OrderedLockError")
WAKE_OK = {
    "WAIT": ("STARTED", "SUCCEEDED"),
    "STEP": ("PENDING", "READY"),
    "CALLBACK": ("STARTED",) + TERMINAL,
    "CHAINED_INVOKE": ("STARTED",) + TERMINAL,
}
LEAF_PARK_OPS = ("wait", "step", "wait_for_condition", "invoke", "callback.result")


def judge_c03(d, _=None):
    out = []
    faulty = {i["n"] for i in d.invocations if i.get("faults") or i.get("crash")}
    for o in d.world.obs:
        if o["kind"] == "ret":
            if o["op"] == "create_callback":
                if o["row_status"] is None:
                    V(out, "C03", "returned-before-record-accepted",
                      f"create_callback at {fmt_path(o['path'])} returned before the backend held the callback", op=o["op"])
                continue
            if o["row_status"] not in TERMINAL:
                V(out, "C03", "returned-before-record-accepted",
                  f"{o['op']} at {fmt_path(o['path'])} returned {o['r']} in invocation {o['inv']} while the backend "
                  f"row was {o['row_status']}", op=o["op"], row=o["row_status"])
        elif o["kind"] == "exc" and not (o.get("invocation_error") and o["inv"] in faulty):
            # (an invocation-class error is the legitimate way a failed checkpoint call surfaces; in an invocation without
            # an injected fault it can only come from user code and must be recorded like any other failure)
            cls = o["r"].split(":")[1]
            if cls in EXEMPT_EXC or o["op"] in ("create_callback",):
                continue
            if o["row_status"] not in TERMINAL:
                V(out, "C03", "raised-before-record-accepted",
                  f"{o['op']} at {fmt_path(o['path'])} raised {o['r']} while the backend row was {o['row_status']}",
                  op=o["op"], row=o["row_status"])
    for inv in d.invocations:
        if inv["outcome"] != "returned" or not isinstance(inv.get("out"), dict):
            continue
        st = inv["out"].get("Status")
        if st == "PENDING":
            out.extend(_parked_registered(d, inv, "C03"))
        if st in ("SUCCEEDED", "FAILED") and not inv["out"].get("Result") and not inv["out"].get("Error"):
            if st == "FAILED" or (st == "SUCCEEDED" and inv["out"].get("Result") == ""):
                if not inv.get("exec_result_at_return"):
                    V(out, "C03", "empty-payload-without-execution-record",
                      f"invocation {inv['n']} reported {st} with an empty payload but no EXECUTION record was accepted",
                      status=st)
    return out


def _parked_registered(d, inv, prop):
    out = []
    for pk in inv.get("parked", []):
        if pk["op"] not in LEAF_PARK_OPS:
            continue
        if _orphan_at_end(d, pk["path"]):
            continue
        ok = pk["type"] is not None and pk["status"] in WAKE_OK.get(pk["type"], ())
        if not ok:
            V(out, prop, "pending-without-wakeup-record",
              f"invocation {inv['n']} returned PENDING while {pk['op']} at {fmt_path(pk['path'])} was parked but the "
              f"backend row was {pk['type']}/{pk['status']}", op=pk["op"], row=str(pk["status"]))
    return out


def _orphan_at_end(d, path):
    """Does `path` lie under a context the backend holds as completed?"""
    be = d.backend
    for k in range(1, len(path)):
        st = be.status_at(tuple(path[:k]))
        if st in TERMINAL:
            return True
    return False


# ============================================================================= C04
def judge_c04(d, _=None):
    out = []
    most = _most_paths(d.program["seq"], ())
    seen = {}
    for e in d.world.entries:
        if e["kind"] != "step" or e["path"] not in most:
            continue
        if e["status"] != "STARTED":
            V(out, "C04", "entered-without-recorded-start",
              f"at-most-once step {fmt_path(e['path'])} entered in invocation {e['inv']} (attempt {e['attempt'] + 1}) "
              f"while the backend row was {e['status']}", status=str(e["status"]))
        key = (e["path"], e["attempt"])
        if key in seen:
            V(out, "C04", "attempt-entered-twice",
              f"at-most-once step {fmt_path(e['path'])} attempt {e['attempt'] + 1} entered in invocations "
              f"{seen[key]} and {e['inv']}", first_status=str(seen.get((key, 's'))))
        else:
            seen[key] = e["inv"]
            seen[(key, "s")] = e["status"]
    return out


def _most_paths(seq, base):
    """Structural paths of at-most-once steps in a program."""
    out = set()
    counter = [0]

    def walk_op(op, base):
        k = op["k"]
        if k in ("log", "sleep", "raise"):
            return
        if k == "try":
            walk_op(op["body"], base)
            return
        counter[0] += 1
        path = base + (counter[0],)
        if k == "step" and op.get("sem") == "most":
            out.add(path)
        elif k == "cb":
            for sub in op.get("between", []):
                walk_op(sub, base)
        elif k == "child":
            out.update(_most_paths(op["body"], path))
        elif k == "par":
            for i, b in enumerate(op["branches"]):
                out.update(_most_paths(b, path + (f"b{i}",)))
        elif k == "map":
            for i in range(len(op["items"])):
                out.update(_most_paths(op["body"], path + (f"b{i}",)))
    for op in seq:
        walk_op(op, base)
    return out


# ============================================================================= C07
def judge_c07(d, _=None):
    out = []
    for inv in d.invocations:
        if inv["outcome"] == "hung":
            blocked = [f"{t['name']}:{t['on']}@{t.get('where')}" for t in (inv.get("end_detail") or []) if t["state"] == "BLOCK"]
            V(out, "C07", "invocation-never-ends",
              f"invocation {inv['n']} of {d.program.get('name')} did not end ({inv['end']}); blocked: {blocked}",
              how=inv["end"], stuck=hang_signature(inv))
            continue
        if inv["outcome"] != "returned" or not isinstance(inv.get("out"), dict):
            continue
        if inv["out"].get("Status") != "PENDING":
            continue
        out.extend(_parked_registered(d, inv, "C07"))
        for x in inv.get("executing_at_end", []):
            p = tuple(int(s) if s.isdigit() else s for s in x["path"].split("."))
            if _orphan_at_end(d, p):
                continue
            if x["kind"] in ("child", "branch"):
                # a context body is 'executing' while it is parked inside one of its operations
                continue
            V(out, "C07", "pending-while-user-function-running",
              f"invocation {inv['n']} returned PENDING while the {x['kind']} function at {x['path']} was still executing",
              kind=x["kind"])
        out.extend(_overdue_branch(d, inv))
        for x in inv.get("entered_after_return", []):
            p = tuple(int(s_) if s_.isdigit() else s_ for s_ in x["path"].split("."))
            if _orphan_at_end(d, p):
                continue
            V(out, "C07", "user-function-started-after-pending-was-returned",
              f"invocation {inv['n']} of {d.program.get('name')} returned PENDING and afterwards the {x['kind']} function at "
              f"{x['path']} was entered (the branch was neither finished nor parked)", kind=x["kind"])
        if not inv.get("timers_at_return") and not inv.get("outstanding_at_return") and not inv.get("completed_during"):
            V(out, "C07", "pending-with-nothing-armed",
              f"invocation {inv['n']} returned PENDING but the backend has no armed timer and awaits no event")
    f = d.final or {}
    faulted = any(i.get("faults") for i in d.invocations)   # a rejected checkpoint call legitimately ends in a raised invocation
    if f.get("status") in ("MAXINV", "STUCK", "RAISED") and not (faulted and f.get("status") == "RAISED"):
        V(out, "C07", "execution-does-not-terminate",
          f"execution ended {f.get('status')} after {len(d.invocations)} invocations", how=f.get("status"))
    return out


OVERDUE_SLACK = 0.35   # seconds; the SDK's timer thread polls every 0.1 s


def _overdue_branch(d, inv):
    """A map/parallel decided to suspend although one of its branches had been due (by the branch's
    own resume time) for longer than the timer thread needs to notice it, and was not resumed."""
    out = []
    parked = inv.get("parked", [])
    # timing clause: meaningless in an execution in which a thread lost the CPU for a while (stall deviation) -
    # the timer thread's reaction and the in-flight refresh call are then late by construction
    slack = OVERDUE_SLACK
    for opts, ch in d.chooser.trace:
        if 500 <= opts[ch] < 1000:
            return out
    for dec in parked:
        if dec["op"] not in ("parallel", "map") or dec.get("vt") is None:
            continue
        P = tuple(dec["path"])
        last = {}
        for pk in parked:
            p = tuple(pk["path"])
            if len(p) > len(P) + 1 and p[:len(P)] == P and pk["tick"] < dec["tick"]:
                b = p[len(P)]
                if b not in last or pk["tick"] > last[b]["tick"]:
                    last[b] = pk
        for b, pk in last.items():
            if pk.get("due") is None:
                continue
            # resumed after that park?
            resumed = any(e["inv"] == inv["n"] and e["tick"] > pk["tick"] and tuple(e["path"][:len(P) + 1]) == P + (b,)
                          for e in d.world.entries)
            if not resumed and dec["vt"] - pk["due"] > slack:
                V(out, "C07", "suspended-although-a-branch-was-overdue",
                  f"invocation {inv['n']} of {d.program.get('name')}: {dec['op']} at {fmt_path(P)} suspended at t={dec['vt']} "
                  f"although branch {b} (parked on {pk['op']}) had been due since t={pk['due']} and was not resumed",
                  op=pk["op"])
    return out


def _shape(d):
    names = d.program.get("name", "")
    return names if len(names) < 24 else names[:24]


# ============================================================================= C10
def judge_c10(d, _=None):
    out = []
    be = d.backend
    done = {}  # context path -> (log index, tick)
    for n, r in enumerate(be.log):
        if r.get("external"):
            continue
        u = r["u"]
        p = r["path"]
        if p is None:
            continue
        for cp, (cn, ctick) in done.items():
            if _is_prefix(cp, p):
                first = r.get("before") is None
                V(out, "C10", "descendant-update-after-completion",
                  f"{u['Type']} {u['Action']} for {fmt_path(p)} reached the backend after its ancestor context "
                  f"{fmt_path(cp)} had completed", action=u["Action"], type=u["Type"],
                  new_operation=first)
        if u["Type"] == "CONTEXT" and u["Action"] in ("SUCCEED", "FAIL") and p not in done:
            done[p] = (n, r["tick"])
    for e in d.world.entries:
        if e["kind"] not in USER_FN_KINDS:
            continue
        # the operation whose function this is was begun (its START handed over, hence accepted) before the ancestor was
        # handed its completion record: the branch was not orphaned yet at that operation, the function may still run
        starts = [n for n, r in enumerate(be.log) if not r.get("external") and r["path"] == tuple(e["path"])
                  and r["u"]["Action"] == "START" and r["tick"] <= e["tick"]]
        for cp, (cn, ctick) in done.items():
            if starts and starts[-1] < cn:
                continue
            if _is_prefix(cp, e["path"]) and e["tick"] > ctick and e["inv"] == be.log[cn]["inv"]:
                V(out, "C10", "orphan-function-entered",
                  f"{e['kind']} function at {fmt_path(e['path'])} was entered after the backend applied the completion of "
                  f"its ancestor context {fmt_path(cp)}", kind=e["kind"])
    return out


def role(name):
    if name == "main":
        return "main"
    if name.startswith("dex-handler"):
        return "handler"
    if name.startswith("Thread-v"):
        return "timer"
    if name.startswith("ThreadPoolExecutor"):
        return "worker"
    return name


def hang_signature(inv):
    """Who is stuck where (SDK function), ignoring idle pool workers and the polling consumer."""
    parts = set()
    for t in inv.get("end_detail") or []:
        if t["state"] != "BLOCK":
            continue
        r = role(t["name"])
        on = t.get("on")
        kind = on[1] if isinstance(on, (list, tuple)) and len(on) == 2 else str(on)
        if kind in ("pool-idle",) or (r == "handler" and kind == "q-get") or r == "main":
            continue
        parts.add(f"{r}:{kind}@{t.get('where')}")
    return "+".join(sorted(parts)) or "none"


# ============================================================================= C06 (whole handler)
FAULT_EXPECT = {"4xx": "raised", "5xx": "FAILED", "429": "FAILED", "token": "FAILED", "4xx-tokenmsg": "raised", "403": "raised"}


def judge_c06(d, _=None):
    out = []
    most = _most_paths(d.program["seq"], ())
    for inv in d.invocations:
        faults = [f for f in inv.get("faults", []) if "call" in f]
        sfaults = [f for f in inv.get("faults", []) if "state_call" in f]
        if not faults and sfaults:
            # the follow-up page fetch of a paginated checkpoint response (or of the initial history) failed
            f = sfaults[0]
            if inv["outcome"] == "hung":
                V(out, "C06", "hang-after-failure",
                  f"invocation {inv['n']} of {d.program.get('name')} never ended after GetDurableExecutionState call "
                  f"{f['state_call']} failed ({f['name']}): {inv['end']}; stuck: {hang_signature(inv)}", stuck=hang_signature(inv))
            later = [c["n"] for c in d.backend.calls if c["inv"] == inv["n"] and c["tick_begin"] > f["tick"]]
            if later:
                V(out, "C06", "api-call-after-failure",
                  f"invocation {inv['n']}: GetDurableExecutionState call {f['state_call']} failed ({f['name']}) but checkpoint "
                  f"calls {later} were still made", shape=_shapeclass(d))
            if inv["outcome"] == "returned" and isinstance(inv.get("out"), dict) and inv["out"].get("Status") in ("SUCCEEDED", "PENDING"):
                V(out, "C06", f"reported-{inv['out'].get('Status')}-after-failure",
                  f"invocation {inv['n']} of {d.program.get('name')} returned {inv['out'].get('Status')} although "
                  f"GetDurableExecutionState call {f['state_call']} failed ({f['name']})", shape=_shapeclass(d))
            continue
        if not faults:
            continue
        f = faults[0]
        tf, name = f["tick"], f["name"]
        where = _fault_observer(d, inv, f)
        later = [c["n"] for c in d.backend.calls if c["inv"] == inv["n"] and c["n"] > f["call"]]
        if later:
            V(out, "C06", "api-call-after-failure",
              f"invocation {inv['n']}: checkpoint call {f['call']} failed ({name}) but calls {later} were still made",
              shape=_shapeclass(d))
        if inv["outcome"] == "hung":
            V(out, "C06", "hang-after-failure",
              f"invocation {inv['n']} of {d.program.get('name')} never ended after checkpoint call {f['call']} failed "
              f"({name}): {inv['end']}; stuck: {hang_signature(inv)}", stuck=hang_signature(inv))
            continue
        if inv["outcome"] == "returned" and isinstance(inv.get("out"), dict):
            st = inv["out"].get("Status")
            if st in ("SUCCEEDED", "PENDING"):
                V(out, "C06", f"reported-{st}-after-failure",
                  f"invocation {inv['n']} of {d.program.get('name')} returned {st} although checkpoint call {f['call']} "
                  f"failed ({name})", shape=_shapeclass(d))
            elif FAULT_EXPECT[name] != "FAILED":
                V(out, "C06", "misclassified", f"{name} checkpoint failure must raise for Lambda retry but the "
                  f"invocation returned {st}", fault=name, got=str(st))
        elif inv["outcome"] == "raised":
            if FAULT_EXPECT[name] != "raised":
                V(out, "C06", "misclassified", f"{name} checkpoint failure must return FAILED but the invocation "
                  f"raised {inv['exc']['cls']}: {inv['exc']['msg'][:80]}", fault=name, got="raised:" + inv["exc"]["cls"])
            elif inv["exc"]["cls"] != "CheckpointError":
                V(out, "C06", "wrong-exception", f"retriable checkpoint failure surfaced as {inv['exc']['cls']}",
                  got=inv["exc"]["cls"])
        for o in d.world.obs:
            if o["inv"] == inv["n"] and o["tick"] > tf and o["kind"] == "ret" and o["op"] != "create_callback":
                if o["row_status"] not in TERMINAL:
                    V(out, "C06", "outcome-delivered-after-failure",
                      f"{o['op']} at {fmt_path(o['path'])} returned {o['r']} after the checkpoint failure although the "
                      f"backend row is {o['row_status']}", op=o["op"])
        for e in d.world.entries:
            if e["inv"] == inv["n"] and e["path"] in most and e["status"] != "STARTED":
                when = "after" if e["tick"] > tf else "before"
                V(out, "C06", "at-most-once-entered-without-start-after-failure",
                  f"at-most-once step {fmt_path(e['path'])} entered ({when} the failing call) while the backend row was "
                  f"{e['status']}: its START was not accepted, and the failure of call {f['call']} means it never will be")
    return out


def _fault_observer(d, inv, f):
    return None


def _shapeclass(d):
    n = d.program.get("name", "")
    for k in ("par", "map", "child", "P", "M", "H"):
        if k in n:
            return "concurrent" if k in ("par", "map", "P", "M") else "child"
    return "sequential"
