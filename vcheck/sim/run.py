"""exec_program: one controlled execution of a DSL program + judges -> RunResult."""
from __future__ import annotations

from vcheck.vsched import explore

from .driver import Driver


def exec_program(program, cfg, prefix, judges, expect=None, ctxdata=None):
    d = Driver(program, cfg, prefix, expect).run()
    internal = d.internal
    viol = []
    if internal is None:
        for j in judges:
            viol.extend(j(d, ctxdata) or [])
    trace = d.chooser.trace
    for v in viol:
        v["replay"] = {"program": program, "cfg": cfg, "prefix": d.chooser.choices(),
                       "options": [list(o) for o, _ in trace]}
        v["summary"] = d.summary()
    outcome = {"final": _final_key(d.final), "inv": [(i["outcome"], (i.get("out") or {}).get("Status") if isinstance(i.get("out"), dict) else None)
                                                        for i in d.invocations],
               "updates": [(r["path"], r["u"]["Action"]) for r in d.backend.log]}
    ends = d.invocations[-1]["end"] if d.invocations else None
    return explore.RunResult(trace=trace, steps=d.steps, violations=viol, outcome=outcome,
                             internal=internal, info={"end": (d.final or {}).get("status"), "driver": d,
                                                      "last_end": ends})


def _final_key(f):
    if not f:
        return None
    e = f.get("error")
    return (f.get("status"), f.get("result"), (e or {}).get("ErrorType") if isinstance(e, dict) else None,
            (e or {}).get("ErrorMessage") if isinstance(e, dict) else None)


def replay_program(rep, judges, ctxdata=None):
    r = rep["replay"]
    res = exec_program(r["program"], r["cfg"], r["prefix"], judges, expect=r.get("options"), ctxdata=ctxdata)
    d = res.info["driver"]
    return {"violations": [{"sig": v["sig"], "msg": v["msg"]} for v in res.violations],
            "internal": res.internal, "summary": d.summary()}
