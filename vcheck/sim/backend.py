"""Reference model of the durable-execution backend behind the boto3 seam.

Implements the two operations the SDK calls (checkpoint_durable_execution,
get_durable_execution_state) on wire dictionaries, builds the invocation event itself
(millisecond timestamps) and never uses the SDK's own codecs.  Kept permissive: it applies
what it is sent; lifecycle judgement belongs to the monitors.
"""
from __future__ import annotations

import copy
import datetime
import json
import re

UTC = datetime.timezone.utc
TERMINAL = ("SUCCEEDED", "FAILED", "CANCELLED", "TIMED_OUT", "STOPPED")
ARN = "arn:aws:lambda:us-east-1:123456789012:function:verif:$LATEST/durable-execution/x/1"

FAULTS = {
    # name -> (http status, code, message)
    "5xx": (500, "ServiceException", "internal failure"),
    "429": (429, "TooManyRequestsException", "slow down"),
    "4xx": (400, "ResourceConflictException", "conflict"),
    "token": (400, "InvalidParameterValueException", "Invalid Checkpoint Token: stale"),
    # retriable by the stated classification: only InvalidParameterValueException + this message is not
    "4xx-tokenmsg": (400, "ValidationException", "Invalid Checkpoint Token: but another error code"),
    "403": (403, "AccessDeniedException", "denied"),
}

_BRANCH_RE = re.compile(r"^(parallel-branch-|map-item-)(\d+)$")


def dt(ts: float) -> datetime.datetime:
    return datetime.datetime.fromtimestamp(ts, tz=UTC)


def client_error(name, op):
    from botocore.exceptions import ClientError
    status, code, msg = FAULTS[name]
    return ClientError({"Error": {"Code": code, "Message": msg},
                        "ResponseMetadata": {"HTTPStatusCode": status, "RequestId": "r-1"}}, op)


def parse_path(s):
    out = []
    for part in s.split("."):
        out.append(int(part) if part.isdigit() else part)
    return tuple(out)


def fmt_path(p):
    return ".".join(str(x) for x in p)


class Backend:
    def __init__(self, driver, input_payload="{}"):
        self.d = driver  # provides now(), tick(), inv, env choices, crash()
        self.rows = {}
        self.order = []
        self.ver = {}
        self.v = 0
        self.tok_n = 0
        self.tokver = {}
        self.last_token = None
        self.log = []     # applied updates
        self.calls = []   # API calls
        self.state_calls = []
        self.cb_n = 0
        self.path_of = {}  # id -> structural path
        self.id_of = {}    # path -> id
        self.unmapped = []
        self.pages = {}    # marker -> list of wire rows
        self.marker_n = 0
        self.page_mode = 0
        self.exec_result = None
        self.async_changes = []  # ids changed by timers/externals since the last invocation event
        self.exec_id = "exec-0000"
        self._add_row({"Id": self.exec_id, "Type": "EXECUTION", "Status": "STARTED",
                       "Name": "verif-exec", "StartTimestamp": dt(self.d.now()),
                       "ExecutionDetails": {"InputPayload": input_payload}})
        self.path_of[self.exec_id] = ("exec",)

    # ------------------------------------------------------------------ rows
    def _add_row(self, row):
        self.rows[row["Id"]] = row
        self.order.append(row["Id"])
        self._touch(row["Id"])

    def _touch(self, i):
        self.v += 1
        self.ver[i] = self.v

    def _map_path(self, u):
        i = u["Id"]
        if i in self.path_of:
            return
        name = u.get("Name") or ""
        p = None
        parent = u.get("ParentId")
        if name.startswith("p:") and " " not in name:
            p = parse_path(name[2:])
        else:
            pp = self.path_of.get(parent) if parent else None
            m = _BRANCH_RE.match(name)
            prow = self.rows.get(parent) if parent else None
            if m and pp is not None:
                p = pp + ("b" + m.group(2),)
            elif pp is not None and name.endswith("create callback id"):
                p = pp + (1,)
            elif pp is not None and name.endswith("submitter"):
                p = pp + (2,)
            # fallbacks that do not depend on how the SDK words the names of the operations it creates itself
            elif pp is not None and u.get("SubType") in ("ParallelBranch", "MapIteration") and re.search(r"(\d+)$", name):
                p = pp + ("b" + re.search(r"(\d+)$", name).group(1),)
            elif pp is not None and prow is not None and prow.get("SubType") == "WaitForCallback":
                p = pp + ((1,) if u.get("Type") == "CALLBACK" else (2,))
        if p is None:
            self.unmapped.append({"id": i, "name": name, "parent": parent, "type": u.get("Type")})
            p = ("?", len(self.unmapped))
        self.path_of[i] = p
        self.id_of.setdefault(p, i)

    def row_at(self, path):
        i = self.id_of.get(tuple(path))
        return self.rows.get(i) if i else None

    def status_at(self, path):
        r = self.row_at(path)
        return r["Status"] if r else None

    # ------------------------------------------------------------------ timers and externals
    def refresh(self):
        """Fire every due timer; returns the ids whose status changed."""
        now = self.d.now()
        v0 = self.v
        self._refresh(now)
        ch = [i for i in self.order if self.ver[i] > v0]
        self.async_changes.extend(ch)
        return ch

    def _refresh(self, now):
        # the service needs `timer_lag` seconds to notice that a wait or a retry delay is over (rows keep their old
        # status, with a timestamp in the past, for that long)
        now = now - (self.d.cfg.get("timer_lag") or 0.0)
        for i in self.order:
            r = self.rows[i]
            t, s = r["Type"], r["Status"]
            if t == "WAIT" and s == "STARTED":
                if r["WaitDetails"]["ScheduledEndTimestamp"].timestamp() <= now:
                    r["Status"] = "SUCCEEDED"
                    r["EndTimestamp"] = r["WaitDetails"]["ScheduledEndTimestamp"]
                    self._touch(i)
            elif t == "STEP" and s == "PENDING":
                if r["StepDetails"]["NextAttemptTimestamp"].timestamp() <= now:
                    r["Status"] = "READY"
                    self._touch(i)
            elif t in ("CALLBACK", "CHAINED_INVOKE") and s == "STARTED" and r.get("_timeout_at"):
                if r["_timeout_at"] <= now:
                    r["Status"] = "TIMED_OUT"
                    key = "CallbackDetails" if t == "CALLBACK" else "ChainedInvokeDetails"
                    et = "Callback.Timeout" if t == "CALLBACK" else "ChainedInvoke.Timeout"
                    r.setdefault(key, {})["Error"] = {"ErrorType": et, "ErrorMessage": "timed out"}
                    r["EndTimestamp"] = dt(r["_timeout_at"])
                    self._touch(i)

    def timers(self):
        """Armed timers as (deadline, id, kind)."""
        out = []
        lag = self.d.cfg.get("timer_lag") or 0.0
        for i in self.order:
            r = self.rows[i]
            t, s = r["Type"], r["Status"]
            if t == "WAIT" and s == "STARTED":
                out.append((r["WaitDetails"]["ScheduledEndTimestamp"].timestamp() + lag, i, "wait"))
            elif t == "STEP" and s == "PENDING":
                out.append((r["StepDetails"]["NextAttemptTimestamp"].timestamp() + lag, i, "retry"))
            elif t in ("CALLBACK", "CHAINED_INVOKE") and s == "STARTED" and r.get("_timeout_at"):
                out.append((r["_timeout_at"], i, "timeout"))
        out.sort()
        return out

    def outstanding(self):
        return [i for i in self.order
                if self.rows[i]["Type"] in ("CALLBACK", "CHAINED_INVOKE") and self.rows[i]["Status"] == "STARTED"]

    def complete(self, i, status, result=None, error=None):
        r = self.rows[i]
        key = "CallbackDetails" if r["Type"] == "CALLBACK" else "ChainedInvokeDetails"
        d = r.setdefault(key, {})
        r["Status"] = status
        if result is not None:
            d["Result"] = result
        if error is not None:
            d["Error"] = error
        r["EndTimestamp"] = dt(self.d.now())
        self._touch(i)
        self.async_changes.append(i)
        self.log.append({"tick": self.d.tick(), "inv": self.d.inv, "call": None, "external": True,
                         "id": i, "path": self.path_of.get(i), "after": status,
                         "u": {"Id": i, "Type": r["Type"], "Action": "EXTERNAL:" + status}})

    # ------------------------------------------------------------------ apply
    def apply(self, u, call_n, idx):
        now = self.d.now()
        i = u["Id"]
        t = u["Type"]
        a = u["Action"]
        self._map_path(u) if t != "EXECUTION" else None
        r = self.rows.get(i)
        before = r["Status"] if r else None
        before_attempt = (r.get("StepDetails") or {}).get("Attempt") if r else None
        if t == "EXECUTION":
            self.exec_result = {"action": a, "payload": u.get("Payload"), "error": u.get("Error"),
                                "tick": self.d.tick()}
            er = self.rows[self.exec_id]
            er["Status"] = "SUCCEEDED" if a == "SUCCEED" else "FAILED"
            er["EndTimestamp"] = dt(now)
            self._touch(self.exec_id)
            self.log.append({"tick": self.d.tick(), "inv": self.d.inv, "call": call_n, "idx": idx,
                             "id": i, "path": ("exec",), "before": "STARTED", "after": er["Status"], "u": u})
            return
        if r is None:
            r = {"Id": i, "Type": t, "Status": "STARTED", "StartTimestamp": dt(now)}
            for k in ("ParentId", "Name", "SubType"):
                if u.get(k):
                    r[k] = u[k]
            if t == "STEP":
                r["StepDetails"] = {"Attempt": 0}
            elif t == "CONTEXT":
                r["ContextDetails"] = {}
            self._add_row(r)
        if t == "STEP":
            sd = r["StepDetails"]
            if a == "START":
                r["Status"] = "STARTED"
            elif a == "RETRY":
                r["Status"] = "PENDING"
                sd["Attempt"] = sd.get("Attempt", 0) + 1
                delay = (u.get("StepOptions") or {}).get("NextAttemptDelaySeconds", 0)
                sd["NextAttemptTimestamp"] = dt(now + delay)
                if u.get("Error") is not None:
                    sd["Error"] = u["Error"]
                if u.get("Payload") is not None:
                    sd["Result"] = u["Payload"]
            elif a == "SUCCEED":
                r["Status"] = "SUCCEEDED"
                if u.get("Payload") is not None:
                    sd["Result"] = u["Payload"]
                sd.pop("Error", None)
                r["EndTimestamp"] = dt(now)
            elif a == "FAIL":
                r["Status"] = "FAILED"
                if u.get("Error") is not None:
                    sd["Error"] = u["Error"]
                r["EndTimestamp"] = dt(now)
        elif t == "WAIT":
            if a == "START":
                secs = (u.get("WaitOptions") or {}).get("WaitSeconds", 1)
                r["Status"] = "STARTED"
                r["WaitDetails"] = {"ScheduledEndTimestamp": dt(now + secs)}
            elif a == "CANCEL":
                r["Status"] = "CANCELLED"
        elif t == "CALLBACK":
            if a == "START":
                self.cb_n += 1
                r["Status"] = "STARTED"
                r["CallbackDetails"] = {"CallbackId": f"cb-{self.cb_n}-{i[:8]}"}
                o = u.get("CallbackOptions") or {}
                to = o.get("TimeoutSeconds") or 0
                r["_timeout_at"] = (now + to) if to > 0 else None
        elif t == "CHAINED_INVOKE":
            if a == "START":
                r["Status"] = "STARTED"
                r["ChainedInvokeDetails"] = {}
                r["_payload"] = u.get("Payload")
                r["_options"] = u.get("ChainedInvokeOptions")
        elif t == "CONTEXT":
            cd = r.setdefault("ContextDetails", {})
            if a == "START":
                r["Status"] = "STARTED"
            elif a == "SUCCEED":
                r["Status"] = "SUCCEEDED"
                if u.get("Payload") is not None:
                    cd["Result"] = u["Payload"]
                if (u.get("ContextOptions") or {}).get("ReplayChildren"):
                    cd["ReplayChildren"] = True
                r["EndTimestamp"] = dt(now)
            elif a == "FAIL":
                r["Status"] = "FAILED"
                if u.get("Error") is not None:
                    cd["Error"] = u["Error"]
                r["EndTimestamp"] = dt(now)
        self._touch(i)
        self.log.append({"tick": self.d.tick(), "inv": self.d.inv, "call": call_n, "idx": idx, "id": i,
                         "path": self.path_of.get(i), "before": before, "after": r["Status"],
                         "before_attempt": before_attempt, "u": u})

    # ------------------------------------------------------------------ wire forms
    @staticmethod
    def wire(r):
        return {k: copy.deepcopy(v) for k, v in r.items() if not k.startswith("_")}

    def _issue_token(self):
        self.tok_n += 1
        tok = f"tok-{self.tok_n}"
        self.tokver[tok] = self.v
        self.last_token = tok
        return tok

    def _new_marker(self, rows):
        self.marker_n += 1
        m = f"m{self.marker_n}"
        self.pages[m] = rows
        return m

    def _paginate(self, rows, first, size):
        """Returns (first page rows, marker or None)."""
        head, rest = rows[:first], rows[first:]
        marker = None
        # build the chain back to front
        chunks = [rest[k:k + size] for k in range(0, len(rest), size)] if rest else []
        nxt = None
        for ch in reversed(chunks):
            self.marker_n += 1
            m = f"m{self.marker_n}"
            self.pages[m] = (ch, nxt)
            nxt = m
        marker = nxt
        return head, marker

    # ------------------------------------------------------------------ API
    def checkpoint_durable_execution(self, DurableExecutionArn, CheckpointToken, Updates, **kw):
        d = self.d
        n = len(self.calls) + 1
        rec = {"n": n, "inv": d.inv, "tick_begin": d.tick(), "token": CheckpointToken,
               "token_ok": CheckpointToken == self.last_token, "n_updates": len(Updates),
               "bytes": len(json.dumps(Updates, default=str)), "outcome": "ok", "tick_applied": None,
               "ids": [u.get("Id") for u in Updates], "client_token": kw.get("ClientToken")}
        self.calls.append(rec)
        lat = d.cfg.get("api_latency") or 0.0
        if lat and d.running:
            d.ex.sleep(lat)                 # the request is in flight: other threads run meanwhile
        d.site("before-call", rec)          # crash / fault / black-hole choices
        self.refresh()
        d.site("deliver-during", rec)       # an outstanding external may complete now
        since = self.tokver.get(CheckpointToken, 0)
        for idx, u in enumerate(Updates):
            self.apply(u, n, idx)
        rec["tick_applied"] = d.tick()
        d.site("after-apply", rec)          # crash after the backend applied; early completion
        tok = self._issue_token()
        rows = [self.wire(self.rows[i]) for i in self.order if self.ver[i] > since]
        state = {"Operations": rows}
        if self.page_mode == 4 and len(rows) > 1:
            head, marker = self._paginate(rows, 1, 1)
            state = {"Operations": head}
            if marker:
                state["NextMarker"] = marker
        rec["returned_ids"] = [r["Id"] for r in rows]
        bad = rec.get("bad_response")
        if bad == "none":
            return None
        if bad and rows:
            if bad == "status":
                state["Operations"][0]["Status"] = "NOT_A_STATUS"
            elif bad == "noid":
                state["Operations"][0].pop("Id", None)
            elif bad == "type":
                state["Operations"][0]["Type"] = "NOT_A_TYPE"
        elif bad:
            state["Operations"] = [{"Type": "STEP", "Status": "NOT_A_STATUS"}]
        return {"CheckpointToken": tok, "NewExecutionState": state,
                "ResponseMetadata": {"HTTPStatusCode": 200}}

    def get_durable_execution_state(self, DurableExecutionArn, CheckpointToken, Marker, MaxItems=1000, **kw):
        d = self.d
        rec = {"inv": d.inv, "tick": d.tick(), "marker": Marker, "n": len(self.state_calls) + 1}
        self.state_calls.append(rec)
        d.site("get-state", rec)
        if Marker not in self.pages:
            raise client_error("4xx", "GetDurableExecutionState")
        rows, nxt = self.pages[Marker]
        out = {"Operations": copy.deepcopy(rows), "ResponseMetadata": {"HTTPStatusCode": 200}}
        if nxt:
            out["NextMarker"] = nxt
        return out

    def make_event(self, mode):
        """Invocation payload as the service would send it (JSON, ms timestamps)."""
        self.refresh()
        self.async_changes = []
        self.page_mode = mode
        rows = [self.wire(self.rows[i]) for i in self.order]
        tok = self._issue_token()
        if mode in (0, 4):
            first, marker = rows, None
        elif mode == 1:
            first, marker = self._paginate(rows, 1, 1)
        elif mode == 2:
            first, marker = self._paginate(rows, 2, 2)
        elif mode == 3:
            first, marker = self._paginate(rows, 0, 2)
        elif mode == 5:
            # EXECUTION row in the payload, then an EMPTY page that still carries a marker, then the rest
            first, marker = self._paginate(rows, 1, 2)
            if marker:
                self.marker_n += 1
                m = f"m{self.marker_n}"
                self.pages[m] = ([], marker)
                marker = m
        elif mode == 6:
            # everything in the payload, plus a marker that leads to an empty last page
            first = rows
            self.marker_n += 1
            marker = f"m{self.marker_n}"
            self.pages[marker] = ([], None)
        elif mode >= 10:
            first, marker = self._paginate(rows, mode - 10, 1000)
        else:
            raise ValueError(mode)

        def js(x):
            if isinstance(x, dict):
                return {k: js(v) for k, v in x.items()}
            if isinstance(x, list):
                return [js(v) for v in x]
            if isinstance(x, datetime.datetime):
                return int(round(x.timestamp() * 1000))
            return x

        ev = {"DurableExecutionArn": ARN, "CheckpointToken": tok,
              "InitialExecutionState": {"Operations": [js(r) for r in first]}}
        if marker:
            ev["InitialExecutionState"]["NextMarker"] = marker
        return ev

    # ------------------------------------------------------------------ summaries
    def terminal_paths(self):
        return {self.path_of[i]: self.rows[i]["Status"] for i in self.order
                if self.rows[i]["Status"] in TERMINAL and i != self.exec_id}

    def snapshot(self):
        out = {}
        for i in self.order:
            r = self.rows[i]
            out[fmt_path(self.path_of.get(i, ("?",)))] = {
                k: (v if not isinstance(v, datetime.datetime) else round(v.timestamp(), 3))
                for k, v in r.items() if k in ("Type", "Status", "SubType")}
        return out
