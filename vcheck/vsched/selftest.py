"""Conformance self-test: the virtual primitives must behave like the stdlib ones.

Each scenario is a function of a namespace `ns` (threading, queue, futures, time) and returns
a JSON-like observation.  It is executed once against the real stdlib (real threads, short
real sleeps to force orders) and once against the virtual primitives under the scheduler with
the default policy; the observations must be equal.  A mismatch fails setup, not a check.
Also runs a determinism smoke test (same prefix twice => identical trace).
"""
from __future__ import annotations

import concurrent.futures as cf
import queue as rq
import sys
import threading as rt
import time as rtime
import types

from . import core, prims


class NS:
    def __init__(self, threading, queue, futures, time, virtual):
        self.threading = threading
        self.queue = queue
        self.futures = futures
        self.time = time
        self.virtual = virtual

    def settle(self, d=0.05):
        self.time.sleep(d)


REAL = NS(rt, rq, cf, rtime, False)
VIRT = NS(prims.vthreading, prims.vqueue, prims.vfutures, prims.vtime, True)


class MyBase(BaseException):
    pass


def s_future_callback_exception(ns):
    f = ns.futures.Future()
    seen = []
    f.add_done_callback(lambda fut: (_ for _ in ()).throw(ValueError("cb")))
    f.add_done_callback(lambda fut: seen.append("second"))
    f.set_result(5)
    return [f.result(), seen, f.done(), f.cancelled()]


def s_future_callback_baseexception_direct(ns):
    f = ns.futures.Future()

    def cb(fut):
        raise MyBase("x")
    f.add_done_callback(cb)
    try:
        f.set_result(1)
        r = "no-raise"
    except MyBase:
        r = "raised"
    return [r, f.done(), f.result()]


def s_pool_callback_baseexception_kills_worker(ns):
    pool = ns.futures.ThreadPoolExecutor(max_workers=1)
    out = []

    def cb(fut):
        raise MyBase("x")
    f1 = pool.submit(lambda: 1)
    f1.add_done_callback(cb) if False else None
    # attach the callback before the task can finish: use a gate
    gate = ns.threading.Event()
    f2 = pool.submit(lambda: (gate.wait(), 2)[1])
    f2.add_done_callback(cb)
    gate.set()
    out.append(f1.result(timeout=2))
    out.append(f2.result(timeout=2))
    ns.settle()
    f3 = pool.submit(lambda: 3)
    try:
        out.append(f3.result(timeout=0.3))
    except ns.futures.TimeoutError:
        out.append("timeout")
    pool.shutdown(wait=False, cancel_futures=True)
    return out


def s_cancel_states(ns):
    pool = ns.futures.ThreadPoolExecutor(max_workers=1)
    gate = ns.threading.Event()
    started = ns.threading.Event()
    f1 = pool.submit(lambda: (started.set(), gate.wait(), "a")[2])
    f2 = pool.submit(lambda: "b")
    started.wait()
    out = [f1.cancel(), f2.cancel(), f2.cancelled(), f2.done(), f1.running()]
    gate.set()
    out.append(f1.result(timeout=2))
    out.append(f1.cancel())
    try:
        f2.result(timeout=1)
    except ns.futures.CancelledError:
        out.append("cancelled-error")
    pool.shutdown(wait=True)
    return out


def s_cancel_invokes_callbacks(ns):
    f = ns.futures.Future()
    seen = []
    f.add_done_callback(lambda fut: seen.append(fut.cancelled()))
    r = f.cancel()
    return [r, seen, f.cancel()]


def s_shutdown_cancel_futures(ns):
    pool = ns.futures.ThreadPoolExecutor(max_workers=1)
    gate = ns.threading.Event()
    started = ns.threading.Event()
    f1 = pool.submit(lambda: (started.set(), gate.wait(), "a")[2])
    f2 = pool.submit(lambda: "b")
    f3 = pool.submit(lambda: "c")
    started.wait()
    pool.shutdown(wait=False, cancel_futures=True)
    out = [f2.cancelled(), f3.cancelled(), f1.done()]
    try:
        pool.submit(lambda: 1)
    except RuntimeError as e:
        out.append(str(e))
    gate.set()
    out.append(f1.result(timeout=2))
    return out


def s_max_workers_zero(ns):
    out = []
    for n in (0, -1):
        try:
            ns.futures.ThreadPoolExecutor(max_workers=n)
            out.append("ok")
        except ValueError as e:
            out.append(str(e))
    return out


def s_pool_idle_reuse(ns):
    pool = ns.futures.ThreadPoolExecutor(max_workers=3, thread_name_prefix="p")
    names = []

    def task():
        names.append(ns.threading.current_thread().name)
        return 1
    pool.submit(task).result()
    ns.settle()
    pool.submit(task).result()
    ns.settle()
    pool.submit(task).result()
    pool.shutdown(wait=True)
    return [len(set(names)), len(names)]


def s_pool_spawns_up_to_max(ns):
    pool = ns.futures.ThreadPoolExecutor(max_workers=2, thread_name_prefix="p")
    gate = ns.threading.Event()
    names = []

    def task():
        names.append(ns.threading.current_thread().name)
        gate.wait()
        return 1
    fs = [pool.submit(task) for _ in range(3)]
    ns.settle()
    n_running = sum(1 for f in fs if f.running())
    gate.set()
    rs = [f.result(timeout=2) for f in fs]
    pool.shutdown(wait=True)
    return [n_running, rs, len(set(names))]


def s_pool_context_waits(ns):
    done = []
    with ns.futures.ThreadPoolExecutor(max_workers=2) as pool:
        pool.submit(lambda: (ns.time.sleep(0.05), done.append(1)))
        pool.submit(lambda: (ns.time.sleep(0.02), done.append(2)))
    return sorted(done)


def s_future_result_exception(ns):
    pool = ns.futures.ThreadPoolExecutor(max_workers=1)

    def bad():
        raise KeyError("k")
    f = pool.submit(bad)
    out = []
    try:
        f.result(timeout=2)
    except KeyError as e:
        out.append(repr(e))
    out.append(type(f.exception()).__name__)
    g = pool.submit(lambda: 7)
    out.append(g.exception(timeout=2))

    def base():
        raise MyBase("b")
    h = pool.submit(base)
    try:
        h.result(timeout=2)
    except MyBase:
        out.append("base-propagated")
    out.append(pool.submit(lambda: 8).result(timeout=2))
    pool.shutdown()
    return out


def s_done_callback_thread(ns):
    pool = ns.futures.ThreadPoolExecutor(max_workers=1, thread_name_prefix="cbt")
    gate = ns.threading.Event()
    where = []
    f = pool.submit(lambda: gate.wait())
    f.add_done_callback(lambda fut: where.append(ns.threading.current_thread().name.startswith("cbt")))
    gate.set()
    f.result(timeout=2)
    ns.settle()
    f.add_done_callback(lambda fut: where.append(ns.threading.current_thread().name.startswith("cbt")))
    pool.shutdown()
    return where


def s_result_timeout(ns):
    f = ns.futures.Future()
    try:
        f.result(timeout=0.05)
    except ns.futures.TimeoutError:
        return "timeout"
    return "no"


def s_set_result_twice(ns):
    f = ns.futures.Future()
    f.set_result(1)
    try:
        f.set_result(2)
    except ns.futures.InvalidStateError:
        return ["invalid", f.result()]
    return ["ok", f.result()]


def s_queue_basic(ns):
    q = ns.queue.Queue()
    out = [q.empty(), q.qsize()]
    q.put(1)
    q.put(2)
    out += [q.empty(), q.qsize(), q.get(), q.get_nowait()]
    try:
        q.get_nowait()
    except ns.queue.Empty:
        out.append("empty")
    try:
        q.get(timeout=0.05)
    except ns.queue.Empty:
        out.append("empty-timeout")
    q.task_done()
    q.task_done()
    try:
        q.task_done()
    except ValueError:
        out.append("too-many")
    return out


def s_queue_blocking_get(ns):
    q = ns.queue.Queue()
    got = []
    t = ns.threading.Thread(target=lambda: got.append(q.get(timeout=2)))
    t.start()
    ns.settle()
    q.put("x")
    t.join()
    return got


def s_queue_maxsize(ns):
    q = ns.queue.Queue(maxsize=1)
    q.put(1)
    out = [q.full()]
    try:
        q.put_nowait(2)
    except ns.queue.Full:
        out.append("full")
    try:
        q.put(2, timeout=0.05)
    except ns.queue.Full:
        out.append("full-timeout")
    return out


def s_queue_join(ns):
    q = ns.queue.Queue()
    q.put(1)
    done = []

    def w():
        q.get()
        ns.settle(0.03)
        done.append("w")
        q.task_done()
    t = ns.threading.Thread(target=w)
    t.start()
    q.join()
    done.append("joined")
    t.join()
    return done


def s_event(ns):
    e = ns.threading.Event()
    out = [e.is_set(), e.wait(0.03)]
    e.set()
    out += [e.is_set(), e.wait(0.03), e.wait()]
    e.clear()
    out.append(e.is_set())
    t = ns.threading.Thread(target=lambda: (ns.settle(0.03), e.set()))
    t.start()
    out.append(e.wait(2))
    t.join()
    return out


def s_lock(ns):
    l = ns.threading.Lock()
    out = [l.locked(), l.acquire(), l.locked(), l.acquire(blocking=False), l.acquire(timeout=0.03)]
    l.release()
    out.append(l.locked())
    try:
        l.release()
    except RuntimeError:
        out.append("release-unlocked")
    with l:
        out.append(l.locked())
    return out


def s_lock_handoff(ns):
    l = ns.threading.Lock()
    order = []
    l.acquire()

    def w():
        with l:
            order.append("w")
    t = ns.threading.Thread(target=w)
    t.start()
    ns.settle()
    order.append("main")
    l.release()
    t.join()
    return order


def s_rlock(ns):
    l = ns.threading.RLock()
    out = [l.acquire(), l.acquire()]
    res = []
    t = ns.threading.Thread(target=lambda: res.append(l.acquire(blocking=False)))
    t.start()
    t.join()
    l.release()
    l.release()
    t = ns.threading.Thread(target=lambda: (res.append(l.acquire(blocking=False)), l.release()))
    t.start()
    t.join()
    try:
        l.release()
    except RuntimeError:
        out.append("not-owner")
    return out + res


def s_thread_join(ns):
    gate = ns.threading.Event()
    t = ns.threading.Thread(target=gate.wait, daemon=True)
    out = [t.is_alive()]
    t.start()
    t.join(timeout=0.03)
    out.append(t.is_alive())
    gate.set()
    t.join()
    out.append(t.is_alive())
    try:
        t.start()
    except RuntimeError:
        out.append("started-twice")
    return out


def s_condition(ns):
    c = ns.threading.Condition()
    out = []
    with c:
        out.append(c.wait(0.03))
    woke = []

    def w(i):
        with c:
            c.wait(2)
            woke.append(i)
    ts = [ns.threading.Thread(target=w, args=(i,)) for i in range(2)]
    for t in ts:
        t.start()
        ns.settle(0.03)
    with c:
        c.notify()
    ns.settle()
    out.append(len(woke))
    with c:
        c.notify_all()
    for t in ts:
        t.join()
    out.append(sorted(woke))
    try:
        c.notify()
    except RuntimeError:
        out.append("notify-unowned")
    return out


def s_semaphore(ns):
    s = ns.threading.Semaphore(1)
    out = [s.acquire(), s.acquire(blocking=False), s.acquire(timeout=0.03)]
    s.release()
    out.append(s.acquire(blocking=False))
    b = ns.threading.BoundedSemaphore(1)
    try:
        b.release()
    except ValueError:
        out.append("bounded")
    return out


def s_timer(ns):
    fired = []
    t = ns.threading.Timer(0.03, lambda: fired.append(1))
    t.start()
    t.join()
    t2 = ns.threading.Timer(5, lambda: fired.append(2))
    t2.start()
    t2.cancel()
    t2.join()
    return fired


def s_wait_as_completed(ns):
    pool = ns.futures.ThreadPoolExecutor(max_workers=2)
    gate = ns.threading.Event()
    f1 = pool.submit(lambda: 1)
    f2 = pool.submit(lambda: (gate.wait(), 2)[1])
    ns.settle()
    d, nd = ns.futures.wait([f1, f2], timeout=0.05, return_when=ns.futures.FIRST_COMPLETED)
    out = [len(d), len(nd)]
    gate.set()
    d, nd = ns.futures.wait([f1, f2], timeout=2)
    out += [len(d), len(nd)]
    out.append(sorted(f.result() for f in ns.futures.as_completed([f1, f2], timeout=2)))
    pool.shutdown()
    return out


def s_time_sleep(ns):
    t0 = ns.time.time()
    ns.time.sleep(0.05)
    d = ns.time.time() - t0
    m0 = ns.time.monotonic()
    return [0.04 < d < 0.5, ns.time.monotonic() >= m0]


SCENARIOS = [v for k, v in sorted(globals().items()) if k.startswith("s_") and callable(v)]


def run_virtual(fn):
    out = {}

    def main():
        out["r"] = fn(VIRT)
    ex = core.Exec(policy="rtb", horizon=100.0)
    ex.run(main)
    if ex.internal_error or ex.end_reason != "main-returned" or ex.errors:
        return ("ERR", ex.end_reason, str(ex.internal_error), ex.end_detail, repr(ex.errors))
    return out.get("r")


def run_real(fn):
    return fn(REAL)


def determinism_smoke():
    def scenario():
        l = prims.Lock()
        log = []

        def w(i):
            for _ in range(2):
                with l:
                    log.append(i)
        ts = [prims.Thread(target=w, args=(i,)) for i in range(3)]
        for t in ts:
            t.start()
        for t in ts:
            t.join()
        return log
    res = []
    for prefix in ([], [1], [0, 1, 1], [1, 0, 1]):
        pair = []
        for _ in range(2):
            out = {}
            ex = core.Exec(prefix=prefix, policy="rtb")
            ex.run(lambda: out.setdefault("r", scenario()))
            pair.append((out.get("r"), ex.trace))
        if pair[0] != pair[1]:
            return False, f"prefix {prefix}: {pair[0]} != {pair[1]}"
        res.append(pair[0][0])
    return True, res


def main():
    import logging
    logging.disable(logging.CRITICAL)
    bad = 0
    for fn in SCENARIOS:
        try:
            r = run_real(fn)
        except Exception as e:  # noqa: BLE001
            r = ("EXC", type(e).__name__, str(e))
        try:
            v = run_virtual(fn)
        except Exception as e:  # noqa: BLE001
            v = ("EXC", type(e).__name__, str(e))
        ok = r == v
        print(f"{'ok  ' if ok else 'FAIL'} {fn.__name__}: real={r!r}" + ("" if ok else f" virtual={v!r}"))
        bad += 0 if ok else 1
    ok, info = determinism_smoke()
    print(f"{'ok  ' if ok else 'FAIL'} determinism: {info}")
    bad += 0 if ok else 1
    print(f"selftest: {len(SCENARIOS)} scenarios, {bad} mismatches")
    return 1 if bad else 0


if __name__ == "__main__":
    sys.exit(main())
