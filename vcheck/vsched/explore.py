"""Deviation-bounded exhaustive exploration (iterative context bounding).

run(prefix) executes the harness once: it replays `prefix` (a list of option indices for the
first len(prefix) choice points) and takes option 0 (the policy default) at every later
choice point.  The explorer enumerates every execution whose choice sequence has at most
`budget` non-default choices, level by level (0 deviations first, then 1, ...), so the first
counterexample found has the fewest deviations.
"""
from __future__ import annotations

import hashlib
import json
from dataclasses import dataclass, field


@dataclass
class RunResult:
    trace: list  # [(options tuple, chosen index)]
    steps: int = 0
    violations: list = field(default_factory=list)  # [{"sig":..., "msg":..., ...}]
    outcome: object = None  # hashable-ish summary of what was observed
    internal: str | None = None
    info: dict = field(default_factory=dict)


@dataclass
class Stats:
    executions: int = 0
    nodes: int = 0  # distinct choice-tree nodes (choice points first seen in some execution)
    steps: int = 0  # scheduling steps (transitions)
    max_dev: int = 0
    by_level: dict = field(default_factory=dict)
    outcomes: set = field(default_factory=set)
    capped: bool = False
    cap_note: str = ""
    internal: list = field(default_factory=list)
    end_reasons: dict = field(default_factory=dict)

    def merge(self, o: "Stats"):
        self.executions += o.executions
        self.nodes += o.nodes
        self.steps += o.steps
        self.max_dev = max(self.max_dev, o.max_dev)
        for k, v in o.by_level.items():
            self.by_level[k] = self.by_level.get(k, 0) + v
        self.outcomes |= o.outcomes
        self.capped = self.capped or o.capped
        if o.cap_note:
            self.cap_note = (self.cap_note + "; " + o.cap_note).strip("; ")
        self.internal.extend(o.internal[:5])
        for k, v in o.end_reasons.items():
            self.end_reasons[k] = self.end_reasons.get(k, 0) + v


def okey(outcome) -> str:
    try:
        s = json.dumps(outcome, sort_keys=True, default=repr)
    except Exception:  # noqa: BLE001
        s = repr(outcome)
    return hashlib.blake2b(s.encode(), digest_size=8).hexdigest()


from .core import kind_of as _kind


def _used(trace, upto=None):
    used = {}
    for opts, ch in (trace if upto is None else trace[:upto]):
        if ch != 0:
            k = _kind(opts[ch])
            used[k] = used.get(k, 0) + 1
    return used


def children(trace, start, budget, used0=None):
    """All one-more-deviation prefixes of an executed trace, deviating at position >= start."""
    out = []
    used = dict(used0) if used0 else _used(trace, start)
    total_cap = budget.get("total")
    for i in range(start, len(trace)):
        opts, ch = trace[i]
        # positions >= start all took the default (0) in this execution
        for alt in range(1, len(opts)):
            k = _kind(opts[alt])
            if used.get(k, 0) + 1 > budget.get(k, 0):
                continue
            if total_cap is not None and sum(used.values()) + 1 > total_cap:
                continue
            out.append([c for _, c in trace[:i]] + [alt])
    return out


def explore(run, budget, prefix=(), max_execs=None, on_violation=None, stop_on_first=False,
            level0=0, stop_after_bad=None, is_known=None):
    """Explore the subtree rooted at `prefix`.  budget: {'thread': n, 'timer': m, 'total': t}.

    Returns (Stats, violations) where violations is a list of (prefix, violation dict).
    """
    st = Stats()
    viols = []
    frontier = [list(prefix)]
    level = level0
    bad_execs = 0
    per_sig = {}
    while frontier:
        nxt = []
        for p in frontier:
            if max_execs is not None and st.executions >= max_execs:
                st.capped = True
                st.cap_note = f"execution cap {max_execs} hit at deviation level {level}"
                return st, viols
            r = run(p)
            st.executions += 1
            st.steps += r.steps
            st.nodes += max(0, len(r.trace) - len(p))
            st.by_level[level] = st.by_level.get(level, 0) + 1
            st.max_dev = max(st.max_dev, level)
            er = r.info.get("end")
            if er:
                st.end_reasons[er] = st.end_reasons.get(er, 0) + 1
            if r.internal:
                st.internal.append({"prefix": p, "error": r.internal})
                continue
            st.outcomes.add(okey(r.outcome))
            for v in r.violations:
                # keep a couple of full records per signature (they carry the replay and the trace summary)
                n_sig = per_sig.get(v.get("sig"), 0)
                per_sig[v.get("sig")] = n_sig + 1
                if n_sig < 2:
                    viols.append((p, v))
                if on_violation:
                    on_violation(p, v)
            if r.violations and stop_on_first:
                return st, viols
            if stop_after_bad is not None and any(not (is_known and is_known(v.get("sig"))) for v in r.violations):
                # a verdict is already certain: do not spend the whole budget on a broken tree
                bad_execs += 1
                if bad_execs >= stop_after_bad:
                    st.cap_note = f"stopped after {bad_execs} violating executions (unlisted violations found)"
                    return st, viols
            nxt.extend(children(r.trace, len(p), budget))
        frontier = nxt
        level += 1
    return st, viols


def root_and_children(run, budget):
    """Run the root execution; return (RunResult, child prefixes)."""
    r = run([])
    return r, children(r.trace, 0, budget)


def sub_budget(budget, prefix_trace_used):
    b = dict(budget)
    return b
