"""Put the SDK under the controlled scheduler without editing it.

After importing every module of the package, every module-global (and class attribute)
binding that *is* one of the real nondeterminism sources is replaced by its virtual
counterpart.  Substitution is by identity, so `import threading`, `from threading import
Lock` and moderate refactorings are all covered.
"""
from __future__ import annotations

import concurrent.futures as _cf
import concurrent.futures.thread as _cft
import datetime as _dt
import importlib
import pkgutil
import queue as _rq
import random as _rrandom
import sys
import threading as _rt
import time as _rtime
import _thread

from . import prims

PKG = "aws_durable_execution_sdk_python"
_patched = None


def _replacements():
    rep = {
        id(_rt): prims.vthreading,
        id(_rq): prims.vqueue,
        id(_rtime): prims.vtime,
        id(_dt): prims.vdatetime,
        id(_rrandom): prims.vrandom,
        id(_cf): prims.vfutures,
        id(_rt.Lock): prims.Lock,
        id(_thread.allocate_lock): prims.Lock,
        id(_rt.RLock): prims.RLock,
        id(_rt.Event): prims.Event,
        id(_rt.Condition): prims.Condition,
        id(_rt.Semaphore): prims.Semaphore,
        id(_rt.BoundedSemaphore): prims.BoundedSemaphore,
        id(_rt.Thread): prims.Thread,
        id(_rt.Timer): prims.Timer,
        id(_rt.current_thread): prims.current_thread,
        id(_rt.get_ident): prims.get_ident,
        id(_rq.Queue): prims.Queue,
        id(_rq.LifoQueue): prims.LifoQueue,
        id(_rq.PriorityQueue): prims.PriorityQueue,
        id(_rq.SimpleQueue): prims.SimpleQueue,
        id(_cf.ThreadPoolExecutor): prims.ThreadPoolExecutor,
        id(_cft.ThreadPoolExecutor): prims.ThreadPoolExecutor,
        id(_cf.Future): prims.Future,
        id(_cf.wait): prims.cf_wait,
        id(_cf.as_completed): prims.cf_as_completed,
        id(_rtime.time): prims.vtime.time,
        id(_rtime.monotonic): prims.vtime.monotonic,
        id(_rtime.perf_counter): prims.vtime.perf_counter,
        id(_rtime.sleep): prims.vtime.sleep,
        id(_rtime.time_ns): prims.vtime.time_ns,
        id(_rtime.monotonic_ns): prims.vtime.time_ns,
        id(_rrandom.random): prims.vrandom.random,
        id(_rrandom.uniform): prims.vrandom.uniform,
        id(_dt.datetime): prims.VDateTime,
        id(_dt.date): prims.VDate,
    }
    return rep


_REAL_INSTANCE_TYPES = None


def _real_instance_types():
    return (
        type(_thread.allocate_lock()), type(_rt.RLock()), _rt.Event, _rt.Condition, _rt.Semaphore,
        _rq.Queue, _rq.SimpleQueue, _cf.ThreadPoolExecutor, _rt.Thread,
    )


def _virtual_for_instance(obj):
    if isinstance(obj, type(_thread.allocate_lock())):
        if obj.locked():
            return None
        return prims.Lock()
    if isinstance(obj, type(_rt.RLock())):
        return prims.RLock()
    if isinstance(obj, _rt.Event):
        if obj.is_set():
            return None
        return prims.Event()
    if isinstance(obj, _rt.Condition):
        return prims.Condition()
    if isinstance(obj, _rt.BoundedSemaphore):
        return prims.BoundedSemaphore(obj._initial_value)
    if isinstance(obj, _rt.Semaphore):
        return prims.Semaphore(obj._value)
    if isinstance(obj, _rq.Queue):
        if obj.qsize():
            return None
        return prims.Queue(obj.maxsize)
    if isinstance(obj, _rq.SimpleQueue):
        if obj.qsize():
            return None
        return prims.SimpleQueue()
    return None


def sdk_modules():
    pkg = importlib.import_module(PKG)
    mods = [pkg]
    for m in pkgutil.walk_packages(pkg.__path__, pkg.__name__ + "."):
        mods.append(importlib.import_module(m.name))
    return mods


def patch():
    """Import and patch the SDK.  Idempotent.  Returns a report dict."""
    global _patched
    if _patched is not None:
        return _patched
    from .core import InternalError
    mods = sdk_modules()
    rep = _replacements()
    inst_types = _real_instance_types()
    bindings = []
    instances = []
    problems = []
    for m in mods:
        for k, v in list(vars(m).items()):
            r = rep.get(id(v))
            if r is not None:
                setattr(m, k, r)
                bindings.append(f"{m.__name__}.{k}")
                continue
            if isinstance(v, inst_types):
                nv = _virtual_for_instance(v)
                if nv is None:
                    problems.append(f"{m.__name__}.{k}: non-pristine {type(v).__name__}")
                else:
                    setattr(m, k, nv)
                    instances.append(f"{m.__name__}.{k}")
            elif isinstance(v, type) and getattr(v, "__module__", "").startswith(PKG):
                for ck, cv in list(vars(v).items()):
                    r = rep.get(id(cv))
                    if r is not None:
                        try:
                            setattr(v, ck, r)
                            bindings.append(f"{m.__name__}.{v.__name__}.{ck}")
                        except (AttributeError, TypeError):
                            problems.append(f"{m.__name__}.{v.__name__}.{ck}: cannot rebind")
                    elif isinstance(cv, inst_types):
                        nv = _virtual_for_instance(cv)
                        if nv is None:
                            problems.append(f"{m.__name__}.{v.__name__}.{ck}: non-pristine {type(cv).__name__}")
                        else:
                            try:
                                setattr(v, ck, nv)
                                instances.append(f"{m.__name__}.{v.__name__}.{ck}")
                            except (AttributeError, TypeError):
                                problems.append(f"{m.__name__}.{v.__name__}.{ck}: cannot rebind")
    if problems:
        raise InternalError("uncontrolled primitives in the SDK: " + "; ".join(problems))
    _patched = {"bindings": sorted(set(bindings)), "instances": sorted(set(instances)),
                "modules": len(mods)}
    return _patched


def sdk_src_dir():
    pkg = importlib.import_module(PKG)
    import os
    return os.path.dirname(pkg.__file__)
