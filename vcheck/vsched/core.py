"""vsched core: a controlled scheduler for real Python threads.

Every virtual thread is carried by a real OS thread, but exactly one carrier holds the
*baton* at any time.  The baton moves only at scheduling points (visible operations of the
virtual primitives in prims.py, and `line` events in line mode).  At every point where more
than one continuation exists the Chooser decides; the sequence of decisions *is* the
schedule, so an execution is a deterministic function of (harness, choice prefix, policy).

Virtual time: the clock only advances when no thread is enabled (jump to the earliest
deadline) or when the chooser spends a `timer` deviation on "this timeout fires now".
"""
from __future__ import annotations

import _thread
import sys
import threading as _rt

CUR: "Exec | None" = None  # the execution currently being run in this process
_tl = _rt.local()

NEW, RUN, BLOCK, DONE = 0, 1, 2, 3
_STATE = {NEW: "NEW", RUN: "RUN", BLOCK: "BLOCK", DONE: "DONE"}

WATCHDOG_S = 600.0
UNWIND_STEP_S = 10.0
UNWIND_TRIES = 30     # 5 minutes of real time per carrier thread  # real seconds a single execution may take before it is declared uncontrolled


class Killed(BaseException):
    """Raised inside virtual threads to unwind them when the execution is over/crashed."""


class InternalError(Exception):
    """Harness/engine problem (nondeterminism, uncontrolled primitive). Never a verdict."""


class VT:
    __slots__ = (
        "id", "name", "baton", "state", "pred", "deadline", "timed_out", "real", "daemon",
        "on", "target", "exc", "user", "tags",
    )

    def __init__(self, id, name, target, daemon):
        self.id = id
        self.name = name
        self.baton = _thread.allocate_lock()
        self.baton.acquire()
        self.state = NEW
        self.pred = None
        self.deadline = None
        self.timed_out = False
        self.real = None
        self.daemon = daemon
        self.on = None  # (object, kind) the thread is blocked on
        self.target = target
        self.exc = None
        self.user = None  # harness scratch
        self.tags = None

    def __repr__(self):
        return f"<VT {self.id} {self.name} {_STATE[self.state]}>"


POLICIES = ("rtb", "low", "high", "rr")

ENV_KINDS = ("crash", "fault", "page", "deliver", "early")


STALL_BASE = 500   # option codes 500+k: the running thread is descheduled for stall_menu[k] virtual seconds


def kind_of(code: int) -> str:
    """Kind of a choice option code: thread ids >= 0, timer = -(id+1), env = 1000*(k+1)+opt."""
    if code < 0:
        return "timer"
    if code < STALL_BASE:
        return "thread"
    if code < 1000:
        return "stall"
    return ENV_KINDS[code // 1000 - 1]


class Chooser:
    """Replays a prefix of option indices, then answers 0 (the default); records every
    choice as (option codes, chosen index).  Shared by all invocations of one execution."""

    def __init__(self, prefix=(), expect=None, env_kinds=()):
        self.prefix = list(prefix)
        self.expect = expect
        self.trace: list[tuple[tuple[int, ...], int]] = []
        self.env_kinds = set(env_kinds)

    def pick(self, codes) -> int:
        idx = len(self.trace)
        if idx < len(self.prefix):
            ch = self.prefix[idx]
            if not (0 <= ch < len(codes)):
                raise InternalError(
                    f"replay divergence at choice {idx}: want option {ch} of {list(codes)}")
            if self.expect is not None and idx < len(self.expect):
                if tuple(self.expect[idx]) != tuple(codes):
                    raise InternalError(
                        f"replay divergence at choice {idx}: options {list(codes)} != recorded "
                        f"{list(self.expect[idx])}")
        else:
            ch = 0
        self.trace.append((tuple(codes), ch))
        return ch

    def env(self, kind: str, n: int) -> int:
        """Environment choice among n options (0 = default).  Not recorded when the kind is
        disabled for this exploration (always the default then)."""
        if n <= 1 or kind not in self.env_kinds:
            return 0
        base = 1000 * (ENV_KINDS.index(kind) + 1)
        return self.pick([base + i for i in range(n)])

    def choices(self):
        return [ch for _, ch in self.trace]


class Exec:
    """One controlled run (a component harness, or one handler invocation)."""

    epoch_counter = 0

    def __init__(self, prefix=(), policy="rtb", start=1_700_000_000.0, horizon=300.0,
                 max_steps=400_000, timer_choices=False, line_files=None, expect=None,
                 random_value=0.5, chooser=None, tick0=0, grace=0.0, stall_menu=None, stall_threads=None, stall_ops=None):
        Exec.epoch_counter += 1
        self.epoch = Exec.epoch_counter
        self.threads: list[VT] = []
        self.now = float(start)
        self.start = float(start)
        self.horizon = self.now + horizon
        self.chooser = chooser if chooser is not None else Chooser(prefix, expect)
        self.trace = self.chooser.trace  # shared list
        self.policy = policy
        self.stall_menu = list(stall_menu or [])
        self.stall_threads = tuple(stall_threads) if stall_threads else None   # name prefixes; None = every thread
        self.stall_ops = set(stall_ops) if stall_ops else None   # operation classes ('signal', 'wait', ...); None = every point
        self._cur_op = None
        self.steps = 0
        self.max_steps = max_steps
        self.killed = False
        self.end_reason = None  # 'main-returned' | 'deadlock' | 'horizon' | 'steps' | 'crash' | 'internal'
        self.end_detail = None
        self.internal_error = None
        self.timer_choices = timer_choices
        self.line_files = line_files  # set of filenames traced at line granularity
        self.random_value = random_value
        self.tick = tick0  # logical clock: incremented at every scheduling step and on demand
        self._done = _rt.Event()
        self._terminator = None
        self.main = None
        self.errors = []  # uncaught exceptions in virtual threads (name, exc)
        self.live_at_end = []
        self.worker_deaths = 0
        self.grace = grace            # virtual seconds the other threads keep running after main returned
        self.main_done_tick = None
        self.main_done_now = None

    # ------------------------------------------------------------------ identity
    def me(self) -> VT:
        try:
            vt = _tl.vt
        except AttributeError:
            raise InternalError("virtual primitive used from an uncontrolled thread") from None
        if vt is None or vt.__class__ is not VT:
            raise InternalError("virtual primitive used from an uncontrolled thread")
        return vt

    def next_tick(self) -> int:
        self.tick += 1
        return self.tick

    # ------------------------------------------------------------------ threads
    def spawn(self, target, name="t", daemon=False) -> VT:
        if self.killed:
            raise Killed()
        vt = VT(len(self.threads), name, target, daemon)
        self.threads.append(vt)
        vt.real = _rt.Thread(target=self._boot, args=(vt,), daemon=True, name=f"vt-{vt.id}-{name}")
        vt.state = RUN
        vt.real.start()
        return vt

    def _boot(self, vt: VT):
        _tl.vt = vt
        vt.baton.acquire()
        tracer = None
        try:
            if not self.killed:
                if self.line_files:
                    tracer = self._make_tracer()
                    sys.settrace(tracer)
                vt.target()
        except Killed:
            pass
        except BaseException as e:  # noqa: BLE001 - uncaught exception in a virtual thread
            vt.exc = e
            self.errors.append((vt.name, e))
        finally:
            if tracer is not None:
                sys.settrace(None)
        vt.state = DONE
        _tl.vt = None
        if self.killed:
            return
        try:
            if vt is self.main:
                self.main_done_tick = self.tick
                self.main_done_now = self.now
                if not self.grace:
                    self._finish("main-returned")
                    return
                self.live_at_end = [t for t in self.threads if t.state != DONE]
            nxt = self._pick(None)
            if nxt is not None:
                self._wake(nxt)
                nxt.baton.release()
        except Killed:
            pass
        except InternalError as e:
            self._internal(e)

    def _internal(self, e):
        if self.internal_error is None:
            self.internal_error = e
        self.end_reason = "internal"
        self.killed = True
        self._done.set()

    def _finish(self, reason):
        self.live_at_end = [t for t in self.threads if t.state != DONE]
        self.end_reason = self.end_reason or reason
        self.killed = True
        self._done.set()

    def terminate(self, reason, detail=None):
        """Called by the baton holder: end the execution now (crash/deadlock/horizon)."""
        if not self.killed:
            self.live_at_end = [t for t in self.threads if t.state != DONE]
            self.end_reason = reason
            self.end_detail = detail
            self.killed = True
            try:
                self._terminator = _tl.vt
            except AttributeError:
                self._terminator = None
            self._done.set()
        raise Killed()

    # ------------------------------------------------------------------ scheduling
    def _enabled(self):
        out = []
        for t in self.threads:
            s = t.state
            if s == RUN:
                out.append(t)
            elif s == BLOCK and t.pred is not None and t.pred():
                out.append(t)
        return out

    def _order(self, en, me):
        pol = self.policy
        if pol == "rtb":
            if me is not None and me in en:
                return [me] + [t for t in en if t is not me]
            return en
        if pol == "low":
            return en
        if pol == "high":
            return en[::-1]
        if pol == "rr":
            if me is None:
                return en
            later = [t for t in en if t.id > me.id]
            return later + [t for t in en if t.id <= me.id]
        raise InternalError(f"unknown policy {pol}")

    def _grace_over(self):
        """After main returned: end quietly once the grace period is used up or nothing can run."""
        live = self.live_at_end
        self._finish("main-returned")
        self.live_at_end = live
        raise Killed()

    def _pick(self, me):
        """Decide who runs next.  Returns a VT (possibly `me`) or terminates."""
        self.steps += 1
        self.tick += 1
        if self.steps > self.max_steps:
            if self.main_done_tick is not None:
                self._grace_over()
            self.terminate("steps", self._snapshot())
        en = self._enabled()
        if not en:
            timed = [t for t in self.threads if t.state == BLOCK and t.deadline is not None]
            if not timed:
                if all(t.state == DONE for t in self.threads):
                    if self.main_done_tick is not None:
                        self._grace_over()
                    return None
                if self.main_done_tick is not None:
                    self._grace_over()
                self.terminate("deadlock", self._snapshot())
            t = min(timed, key=lambda x: (x.deadline, x.id))
            if self.main_done_tick is not None and t.deadline > self.main_done_now + self.grace:
                self._grace_over()
            if t.deadline > self.now:
                self.now = t.deadline
            if self.now > self.horizon:
                self.terminate("horizon", self._snapshot())
            t.timed_out = True
            return t
        opts = self._order(en, me)
        codes = [t.id for t in opts]
        timer_t = None
        if self.timer_choices:
            timed = [t for t in self.threads
                     if t.state == BLOCK and t.deadline is not None and t not in en]
            if timed:
                timer_t = min(timed, key=lambda x: (x.deadline, x.id))
                codes.append(-(timer_t.id + 1))
        if self.stall_menu and me is not None and me.state == RUN and me in en and (
                self.stall_threads is None or me.name.startswith(self.stall_threads)) and (
                self.stall_ops is None or self._cur_op in self.stall_ops):
            # the running thread loses the CPU for a while at this point (everything else goes on)
            codes.extend(STALL_BASE + k for k in range(len(self.stall_menu)))
        if len(codes) == 1:
            return opts[0]
        ch = self.chooser.pick(codes)
        code = codes[ch]
        if code >= STALL_BASE:
            return ("stall", self.stall_menu[code - STALL_BASE])
        if code < 0:
            t = timer_t
            if t.deadline > self.now:
                self.now = t.deadline
            t.timed_out = True
            return t
        return opts[ch]

    def _wake(self, t: VT):
        if t.state == BLOCK:
            t.state = RUN
            t.pred = None
            t.deadline = None
            t.on = None

    def _switch(self, me, nxt):
        self._wake(nxt)
        if nxt is me:
            return
        nxt.baton.release()
        me.baton.acquire()
        if self.killed:
            raise Killed()

    def point(self, op=None):
        """A scheduling point before a visible operation (`op`: its class, e.g. 'signal' or 'wait')."""
        if self.killed:
            raise Killed()
        me = self.me()
        self._cur_op = op
        try:
            nxt = self._pick(me)
        except InternalError as e:
            self._internal(e)
            raise Killed() from None
        if isinstance(nxt, tuple):
            self.block(lambda: False, nxt[1], on=("stall", nxt[1]))
            return
        self._switch(me, nxt)

    def block(self, pred, timeout=None, on=None) -> bool:
        """Block the current thread until pred() holds (True) or the timeout passes (False)."""
        if self.killed:
            raise Killed()
        me = self.me()
        me.state = BLOCK
        me.pred = pred
        me.timed_out = False
        me.deadline = (self.now + max(0.0, timeout)) if timeout is not None else None
        me.on = on
        try:
            nxt = self._pick(me)
        except InternalError as e:
            self._internal(e)
            raise Killed() from None
        self._switch(me, nxt)
        to = me.timed_out
        me.timed_out = False
        return not to

    def sleep(self, d):
        self.block(lambda: False, d, on=("sleep", d))

    def env_choice(self, kind, n):
        try:
            return self.chooser.env(kind, n)
        except InternalError as e:
            self._internal(e)
            raise Killed() from None

    def _snapshot(self):
        out = []
        try:
            frames = sys._current_frames()
        except Exception:  # noqa: BLE001
            frames = {}
        for t in self.threads:
            where = None
            f = frames.get(t.real.ident) if t.real is not None else None
            while f is not None:
                fn = f.f_code.co_filename
                if "aws_durable_execution_sdk_python" in fn:
                    where = f"{fn.rsplit('/', 1)[-1]}:{f.f_code.co_name}"
                    break
                f = f.f_back
            on = None
            if t.on is not None:
                o = t.on
                if isinstance(o, tuple) and len(o) == 2:
                    a = o[0] if isinstance(o[0], (str, int, float)) else type(o[0]).__name__
                    on = (a, o[1])
                else:
                    on = repr(o)
            out.append({"id": t.id, "name": t.name, "state": _STATE[t.state], "on": on, "where": where,
                        "deadline": None if t.deadline is None else round(t.deadline - self.start, 3)})
        return out

    # ------------------------------------------------------------------ line mode
    def _make_tracer(self):
        files = self.line_files
        ex = self
        cache = {}

        def local(frame, event, arg):
            if event == "line" and not ex.killed:
                ex.point()
            return local

        def tracer(frame, event, arg):
            code = frame.f_code
            hit = cache.get(code)
            if hit is None:
                hit = code.co_filename in files
                cache[code] = hit
            return local if hit else None

        return tracer

    # ------------------------------------------------------------------ driver side
    def run(self, main, name="main"):
        """Run `main` as the first virtual thread; returns when the execution is over."""
        global CUR
        CUR = self
        vt = self.spawn(main, name)
        self.main = vt
        vt.baton.release()
        ok = self._done.wait(WATCHDOG_S)
        if not ok:
            self.killed = True
            self.end_reason = "internal"
            self.internal_error = InternalError(
                "watchdog: execution did not finish in real time (uncontrolled blocking or spin): "
                + repr(self._snapshot()))
        self.killed = True
        order = list(self.threads)
        if self._terminator is not None and self._terminator in order:
            order.remove(self._terminator)
            order.insert(0, self._terminator)
        stuck = []
        for t in order:
            if t.real is None:
                continue
            if t.real.is_alive():
                # under heavy host load (a niced run next to two others) a carrier needed more than 10 s of real time to be
                # scheduled once: wait patiently, nudging it again, before calling it stuck
                for _ in range(UNWIND_TRIES):
                    try:
                        t.baton.release()
                    except RuntimeError:
                        pass
                    t.real.join(UNWIND_STEP_S)
                    if not t.real.is_alive():
                        break
                if t.real.is_alive():
                    stuck.append(t.name)
        if stuck and self.internal_error is None:
            self.internal_error = InternalError(f"carrier threads did not unwind: {stuck}")
            self.end_reason = "internal"
        return self

    # convenience
    def deviations(self):
        return sum(1 for _, ch in self.trace if ch != 0)

    def choices(self):
        return [ch for _, ch in self.trace]


def cur() -> Exec:
    ex = CUR
    if ex is None:
        raise InternalError("no current execution")
    return ex
