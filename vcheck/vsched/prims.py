"""Virtual counterparts of threading / queue / concurrent.futures / time / datetime / random.

Each visible operation takes a scheduling point *before* it acts.  Semantics mirror CPython
3.12's observable behaviour (see selftest.py, which runs scripted scenarios against both the
stdlib objects and these ones).

Objects remember the execution epoch they were last used in and re-initialise themselves
when a new execution first touches them, so primitives created at import time or hoisted to
module/class scope by a code change are still under control.
"""
from __future__ import annotations

import collections
import concurrent.futures as _cf
import datetime as _dt
import heapq
import queue as _rq
import random as _rrandom
import threading as _rt
import time as _rtime
import types

from . import core
from .core import DONE, Killed


def _ex() -> core.Exec:
    ex = core.CUR
    if ex is None:
        raise core.InternalError("virtual primitive used outside an execution")
    return ex


def _now() -> float:
    """Virtual clock; a fixed instant when no execution is active (pure codec checks)."""
    ex = core.CUR
    return ex.now if ex is not None else 1_700_000_000.0


class _V:
    """Base: epoch-based lazy re-initialisation."""

    _ep = -1

    def _s(self):
        ex = core.CUR
        ep = ex.epoch if ex is not None else 0
        if self._ep != ep:
            self._ep = ep
            self._reset()

    def _reset(self):  # pragma: no cover - overridden
        pass


# ----------------------------------------------------------------------------- locks
class Lock(_V):
    def __init__(self):
        self._owner = None
        self._s()

    def _reset(self):
        self._owner = None

    def acquire(self, blocking=True, timeout=-1):
        self._s()
        ex = _ex()
        ex.point()
        if self._owner is None:
            self._owner = ex.me()
            return True
        if not blocking:
            return False
        to = None if (timeout is None or timeout < 0) else timeout
        ok = ex.block(lambda: self._owner is None, to, on=(self, "lock"))
        if ok:
            self._owner = ex.me()
        return ok

    def release(self):
        self._s()
        ex = _ex()
        ex.point()
        if self._owner is None:
            raise RuntimeError("release unlocked lock")
        self._owner = None

    def locked(self):
        self._s()
        _ex().point()
        return self._owner is not None

    def __enter__(self):
        self.acquire()
        return True

    def __exit__(self, *a):
        self.release()

    def _is_owned(self):
        return self._owner is not None and self._owner is _ex().me()


class RLock(_V):
    def __init__(self):
        self._owner = None
        self._count = 0
        self._s()

    def _reset(self):
        self._owner = None
        self._count = 0

    def acquire(self, blocking=True, timeout=-1):
        self._s()
        ex = _ex()
        ex.point()
        me = ex.me()
        if self._owner is me:
            self._count += 1
            return True
        if self._owner is None:
            self._owner = me
            self._count = 1
            return True
        if not blocking:
            return False
        to = None if (timeout is None or timeout < 0) else timeout
        ok = ex.block(lambda: self._owner is None, to, on=(self, "rlock"))
        if ok:
            self._owner = me
            self._count = 1
        return ok

    def release(self):
        self._s()
        ex = _ex()
        ex.point()
        if self._owner is not ex.me():
            raise RuntimeError("cannot release un-acquired lock")
        self._count -= 1
        if self._count == 0:
            self._owner = None

    def __enter__(self):
        self.acquire()
        return True

    def __exit__(self, *a):
        self.release()

    def _is_owned(self):
        return self._owner is _ex().me()

    # used by Condition
    def _release_save(self):
        st = (self._owner, self._count)
        self._owner = None
        self._count = 0
        return st

    def _acquire_restore(self, st):
        ex = _ex()
        if self._owner is not None:
            ex.block(lambda: self._owner is None, None, on=(self, "rlock"))
        self._owner, self._count = st


class Event(_V):
    def __init__(self):
        self._flag = False
        self._s()

    def _reset(self):
        self._flag = False

    def is_set(self):
        self._s()
        _ex().point()
        return self._flag

    isSet = is_set

    def set(self):
        self._s()
        _ex().point("signal")
        self._flag = True

    def clear(self):
        self._s()
        _ex().point("signal")
        self._flag = False

    def wait(self, timeout=None):
        self._s()
        ex = _ex()
        ex.point("wait")
        if self._flag:
            return True
        ok = ex.block(lambda: self._flag, timeout, on=(self, "event"))
        return True if ok else self._flag


class Condition(_V):
    def __init__(self, lock=None):
        self._lock = lock if lock is not None else RLock()
        self._waiters = collections.deque()
        self.acquire = self._lock.acquire
        self.release = self._lock.release
        self._s()

    def _reset(self):
        self._waiters = collections.deque()

    def __enter__(self):
        return self._lock.__enter__()

    def __exit__(self, *a):
        return self._lock.__exit__(*a)

    def wait(self, timeout=None):
        self._s()
        ex = _ex()
        if not self._lock._is_owned():
            raise RuntimeError("cannot wait on un-acquired lock")
        ex.point("wait")
        tok = [False]
        self._waiters.append(tok)
        if isinstance(self._lock, RLock):
            st = self._lock._release_save()
        else:
            st = None
            self._lock._owner = None
        ok = ex.block(lambda: tok[0], timeout, on=(self, "cond"))
        if not ok:
            try:
                self._waiters.remove(tok)
            except ValueError:
                pass
        # re-acquire
        if st is not None:
            self._lock._acquire_restore(st)
        else:
            if self._lock._owner is not None:
                ex.block(lambda: self._lock._owner is None, None, on=(self._lock, "lock"))
            self._lock._owner = ex.me()
        return ok or tok[0]

    def wait_for(self, predicate, timeout=None):
        endtime = None
        waittime = timeout
        result = predicate()
        while not result:
            if waittime is not None:
                if endtime is None:
                    endtime = _ex().now + waittime
                else:
                    waittime = endtime - _ex().now
                    if waittime <= 0:
                        break
            self.wait(waittime)
            result = predicate()
        return result

    def notify(self, n=1):
        self._s()
        if not self._lock._is_owned():
            raise RuntimeError("cannot notify on un-acquired lock")
        _ex().point("signal")
        for _ in range(n):
            if not self._waiters:
                break
            self._waiters.popleft()[0] = True

    def notify_all(self):
        self.notify(len(self._waiters) + 0 if self._waiters else 0)

    notifyAll = notify_all


class Semaphore(_V):
    def __init__(self, value=1):
        if value < 0:
            raise ValueError("semaphore initial value must be >= 0")
        self._initial = value
        self._value = value
        self._s()

    def _reset(self):
        self._value = self._initial

    def acquire(self, blocking=True, timeout=None):
        self._s()
        ex = _ex()
        ex.point()
        if self._value > 0:
            self._value -= 1
            return True
        if not blocking:
            return False
        ok = ex.block(lambda: self._value > 0, timeout, on=(self, "sem"))
        if ok:
            self._value -= 1
        return ok

    __enter__ = acquire

    def release(self, n=1):
        self._s()
        _ex().point("signal")
        self._value += n

    def __exit__(self, *a):
        self.release()


class BoundedSemaphore(Semaphore):
    def release(self, n=1):
        self._s()
        if self._value + n > self._initial:
            raise ValueError("Semaphore released too many times")
        super().release(n)


# ----------------------------------------------------------------------------- queues
class Queue(_V):
    def __init__(self, maxsize=0):
        self.maxsize = maxsize
        self._init_q()
        self.unfinished_tasks = 0
        self._s()

    def _init_q(self):
        self._q = collections.deque()

    def _reset(self):
        self._init_q()
        self.unfinished_tasks = 0

    def _put(self, item):
        self._q.append(item)

    def _get(self):
        return self._q.popleft()

    def _full(self):
        return 0 < self.maxsize <= len(self._q)

    def put(self, item, block=True, timeout=None):
        self._s()
        ex = _ex()
        ex.point("signal")
        if self._full():
            if not block:
                raise _rq.Full
            ok = ex.block(lambda: not self._full(), timeout, on=(self, "q-put"))
            if not ok:
                raise _rq.Full
        self._put(item)
        self.unfinished_tasks += 1

    def put_nowait(self, item):
        return self.put(item, block=False)

    def get(self, block=True, timeout=None):
        self._s()
        ex = _ex()
        ex.point("wait")
        if not self._q:
            if not block:
                raise _rq.Empty
            if timeout is not None and timeout < 0:
                raise ValueError("'timeout' must be a non-negative number")
            ok = ex.block(lambda: bool(self._q), timeout, on=(self, "q-get"))
            if not ok:
                raise _rq.Empty
        return self._get()

    def get_nowait(self):
        return self.get(block=False)

    def empty(self):
        self._s()
        _ex().point()
        return not self._q

    def full(self):
        self._s()
        _ex().point()
        return self._full()

    def qsize(self):
        self._s()
        _ex().point()
        return len(self._q)

    def task_done(self):
        self._s()
        _ex().point()
        if self.unfinished_tasks <= 0:
            raise ValueError("task_done() called too many times")
        self.unfinished_tasks -= 1

    def join(self):
        self._s()
        ex = _ex()
        ex.point()
        if self.unfinished_tasks:
            ex.block(lambda: self.unfinished_tasks == 0, None, on=(self, "q-join"))


class LifoQueue(Queue):
    def _init_q(self):
        self._q = []

    def _get(self):
        return self._q.pop()


class PriorityQueue(Queue):
    def _init_q(self):
        self._q = []

    def _put(self, item):
        heapq.heappush(self._q, item)

    def _get(self):
        return heapq.heappop(self._q)


class SimpleQueue(Queue):
    def __init__(self):
        super().__init__(0)

    def task_done(self):  # SimpleQueue has none; keep harmless
        raise AttributeError("task_done")

    def put(self, item, block=True, timeout=None):
        self._s()
        _ex().point()
        self._put(item)


# ----------------------------------------------------------------------------- threads
class Thread:
    _counter = 0

    def __init__(self, group=None, target=None, name=None, args=(), kwargs=None, *, daemon=None):
        self._target = target
        self._args = args
        self._kwargs = kwargs or {}
        self.name = name or "Thread-v"
        self.daemon = bool(daemon) if daemon is not None else False
        self._vt = None
        self._started = False

    def run(self):
        if self._target is not None:
            self._target(*self._args, **self._kwargs)

    def start(self):
        if self._started:
            raise RuntimeError("threads can only be started once")
        ex = _ex()
        ex.point()
        self._started = True
        self._vt = ex.spawn(self.run, self.name, self.daemon)
        self._vt.user = self

    def join(self, timeout=None):
        if not self._started:
            raise RuntimeError("cannot join thread before it is started")
        ex = _ex()
        ex.point()
        vt = self._vt
        if vt is ex.me():
            raise RuntimeError("cannot join current thread")
        if vt.state != DONE:
            ex.block(lambda: vt.state == DONE, timeout, on=(self, "join"))

    def is_alive(self):
        return self._started and self._vt.state != DONE

    @property
    def ident(self):
        return None if self._vt is None else 10_000 + self._vt.id

    native_id = ident

    def isDaemon(self):
        return self.daemon

    def setDaemon(self, d):
        self.daemon = d

    def getName(self):
        return self.name

    def setName(self, n):
        self.name = n


class Timer(Thread):
    def __init__(self, interval, function, args=None, kwargs=None):
        super().__init__()
        self.interval = interval
        self.function = function
        self.args = args if args is not None else []
        self.kwargs = kwargs if kwargs is not None else {}
        self.finished = Event()

    def cancel(self):
        self.finished.set()

    def run(self):
        self.finished.wait(self.interval)
        if not self.finished.is_set():
            self.function(*self.args, **self.kwargs)
        self.finished.set()


class _CurrentThreadView:
    def __init__(self, vt):
        self._vt = vt
        self.name = vt.name
        self.daemon = vt.daemon
        self.ident = 10_000 + vt.id
        self.native_id = self.ident

    def is_alive(self):
        return self._vt.state != DONE

    def getName(self):
        return self.name


def current_thread():
    vt = _ex().me()
    if isinstance(vt.user, Thread):
        return vt.user
    return _CurrentThreadView(vt)


def get_ident():
    return 10_000 + _ex().me().id


def active_count():
    return sum(1 for t in _ex().threads if t.state != DONE)


def enumerate_threads():
    return [_CurrentThreadView(t) for t in _ex().threads if t.state != DONE]


# ----------------------------------------------------------------------------- futures
_PENDING, _RUNNING, _CANCELLED, _CANCELLED_AND_NOTIFIED, _FINISHED = (
    "PENDING", "RUNNING", "CANCELLED", "CANCELLED_AND_NOTIFIED", "FINISHED")
_DONE_STATES = (_CANCELLED, _CANCELLED_AND_NOTIFIED, _FINISHED)


class Future:
    def __init__(self):
        self._state = _PENDING
        self._result = None
        self._exception = None
        self._done_callbacks = []
        self._waiters = []

    def _invoke_callbacks(self):
        for cb in self._done_callbacks:
            try:
                cb(self)
            except Exception:  # noqa: BLE001 - mirrors concurrent.futures: log and continue
                pass

    def __repr__(self):
        return f"<VFuture {self._state}>"

    def cancel(self):
        _ex().point()
        if self._state in (_RUNNING, _FINISHED):
            return False
        if self._state in (_CANCELLED, _CANCELLED_AND_NOTIFIED):
            return True
        self._state = _CANCELLED
        self._invoke_callbacks()
        return True

    def cancelled(self):
        return self._state in (_CANCELLED, _CANCELLED_AND_NOTIFIED)

    def running(self):
        return self._state == _RUNNING

    def done(self):
        return self._state in _DONE_STATES

    def _get_result(self):
        if self._exception is not None:
            try:
                raise self._exception
            finally:
                self = None  # noqa: PLW0642
        return self._result

    def add_done_callback(self, fn):
        _ex().point("signal")
        if self._state not in _DONE_STATES:
            self._done_callbacks.append(fn)
            return
        try:
            fn(self)
        except Exception:  # noqa: BLE001
            pass

    def result(self, timeout=None):
        ex = _ex()
        ex.point("wait")
        if self._state in (_CANCELLED, _CANCELLED_AND_NOTIFIED):
            raise _cf.CancelledError()
        if self._state == _FINISHED:
            return self._get_result()
        ok = ex.block(lambda: self._state in _DONE_STATES, timeout, on=(self, "future"))
        if self._state in (_CANCELLED, _CANCELLED_AND_NOTIFIED):
            raise _cf.CancelledError()
        if self._state == _FINISHED:
            return self._get_result()
        raise _cf.TimeoutError()

    def exception(self, timeout=None):
        ex = _ex()
        ex.point("wait")
        if self._state in (_CANCELLED, _CANCELLED_AND_NOTIFIED):
            raise _cf.CancelledError()
        if self._state == _FINISHED:
            return self._exception
        ex.block(lambda: self._state in _DONE_STATES, timeout, on=(self, "future"))
        if self._state in (_CANCELLED, _CANCELLED_AND_NOTIFIED):
            raise _cf.CancelledError()
        if self._state == _FINISHED:
            return self._exception
        raise _cf.TimeoutError()

    def set_running_or_notify_cancel(self):
        if self._state == _CANCELLED:
            self._state = _CANCELLED_AND_NOTIFIED
            return False
        if self._state == _PENDING:
            self._state = _RUNNING
            return True
        raise RuntimeError("Future in unexpected state")

    def set_result(self, result):
        _ex().point("signal")
        if self._state in _DONE_STATES:
            raise _cf._base.InvalidStateError(f"{self._state}: {self!r}")
        self._result = result
        self._state = _FINISHED
        self._invoke_callbacks()

    def set_exception(self, exception):
        _ex().point("signal")
        if self._state in _DONE_STATES:
            raise _cf._base.InvalidStateError(f"{self._state}: {self!r}")
        self._exception = exception
        self._state = _FINISHED
        self._invoke_callbacks()


class ThreadPoolExecutor:
    _counter = 0

    def __init__(self, max_workers=None, thread_name_prefix="", initializer=None, initargs=()):
        if max_workers is None:
            max_workers = 8
        if max_workers <= 0:
            raise ValueError("max_workers must be greater than 0")
        if initializer is not None and not callable(initializer):
            raise TypeError("initializer must be a callable")
        self._max_workers = max_workers
        self._work = collections.deque()
        self._idle = 0  # idle semaphore value
        self._threads = []
        self._shutdown = False
        self._broken = False
        ThreadPoolExecutor._counter += 1
        self._prefix = thread_name_prefix or f"ThreadPoolExecutor-v"
        self._initializer = initializer
        self._initargs = initargs

    def submit(self, fn, /, *args, **kwargs):
        ex = _ex()
        ex.point("signal")
        if self._broken:
            raise _cf.thread.BrokenThreadPool(self._broken)
        if self._shutdown:
            raise RuntimeError("cannot schedule new futures after shutdown")
        f = Future()
        self._work.append((f, fn, args, kwargs))
        # _adjust_thread_count
        if self._idle > 0:
            self._idle -= 1
        elif len(self._threads) < self._max_workers:
            t = Thread(target=self._worker, name=f"{self._prefix}_{len(self._threads)}")
            self._threads.append(t)
            t.start()
        return f

    def _worker(self):
        ex = _ex()
        if self._initializer is not None:
            try:
                self._initializer(*self._initargs)
            except BaseException:  # noqa: BLE001
                self._broken = "A thread initializer failed, the thread pool is not usable anymore"
                return
        try:
            while True:
                ex.point()
                if not self._work:
                    self._idle += 1
                    ex.block(lambda: bool(self._work), None, on=(self, "pool-idle"))
                item = self._work.popleft()
                if item is not None:
                    f, fn, a, k = item
                    if not f.set_running_or_notify_cancel():
                        continue
                    try:
                        r = fn(*a, **k)
                    except Killed:
                        raise
                    except BaseException as e:  # noqa: BLE001
                        f.set_exception(e)
                    else:
                        f.set_result(r)
                    del item
                    continue
                if self._shutdown:
                    self._work.append(None)  # notice other workers
                    return
        except Killed:
            raise
        except BaseException:  # noqa: BLE001 - mirrors 'Exception in worker' (thread dies)
            ex.worker_deaths = getattr(ex, "worker_deaths", 0) + 1
            return

    def shutdown(self, wait=True, *, cancel_futures=False):
        ex = _ex()
        ex.point()
        self._shutdown = True
        if cancel_futures:
            while self._work:
                item = self._work.popleft()
                if item is not None:
                    item[0].cancel()
        self._work.append(None)
        if wait:
            for t in list(self._threads):
                t.join()

    def map(self, fn, *iterables, timeout=None, chunksize=1):
        fs = [self.submit(fn, *args) for args in zip(*iterables)]

        def gen():
            for f in fs:
                yield f.result(timeout)
        return gen()

    def __enter__(self):
        return self

    def __exit__(self, exc_type, exc_val, exc_tb):
        self.shutdown(wait=True)
        return False


def cf_wait(fs, timeout=None, return_when="ALL_COMPLETED"):
    fs = list(fs)
    ex = _ex()
    ex.point()

    def ready():
        done = [f for f in fs if f.done()]
        if return_when == "FIRST_COMPLETED":
            return bool(done)
        if return_when == "FIRST_EXCEPTION":
            return len(done) == len(fs) or any(
                f._state == _FINISHED and f._exception is not None for f in done)
        return len(done) == len(fs)

    if not ready():
        ex.block(ready, timeout, on=("cf", "wait"))
    done = {f for f in fs if f.done()}
    return _cf._base.DoneAndNotDoneFutures(done, set(fs) - done)


def cf_as_completed(fs, timeout=None):
    fs = list(fs)
    ex = _ex()
    end = None if timeout is None else ex.now + timeout
    pending = list(fs)
    while pending:
        ex.point()
        done = [f for f in pending if f.done()]
        if not done:
            to = None if end is None else max(0.0, end - ex.now)
            ok = ex.block(lambda: any(f.done() for f in pending), to, on=("cf", "as_completed"))
            if not ok:
                raise _cf.TimeoutError()
            done = [f for f in pending if f.done()]
        for f in done:
            pending.remove(f)
            yield f


# ----------------------------------------------------------------------------- time/datetime/random
class _VTime(types.ModuleType):
    def __getattr__(self, name):
        return getattr(_rtime, name)

    @staticmethod
    def time():
        return _now()

    @staticmethod
    def monotonic():
        return _now()

    perf_counter = monotonic

    @staticmethod
    def time_ns():
        return int(_ex().now * 1e9)

    monotonic_ns = perf_counter_ns = time_ns

    @staticmethod
    def sleep(d):
        ex = _ex()
        ex.point()
        ex.sleep(d)


vtime = _VTime("time")


def v_time():
    return _ex().now


def v_sleep(d):
    vtime.sleep(d)


class _DTMeta(type(_dt.datetime)):
    def __instancecheck__(cls, obj):
        return isinstance(obj, _dt.datetime)

    def __subclasscheck__(cls, sub):
        return issubclass(sub, _dt.datetime)


class VDateTime(_dt.datetime, metaclass=_DTMeta):
    """datetime.datetime whose clock reads come from the virtual clock; all constructors
    return plain datetime objects."""

    def __new__(cls, *a, **k):
        return _dt.datetime(*a, **k)

    @classmethod
    def now(cls, tz=None):
        return _dt.datetime.fromtimestamp(_now(), tz=tz)

    @classmethod
    def utcnow(cls):
        return _dt.datetime.fromtimestamp(_now(), tz=_dt.timezone.utc).replace(tzinfo=None)

    @classmethod
    def today(cls):
        return _dt.datetime.fromtimestamp(_now())

    @classmethod
    def fromtimestamp(cls, *a, **k):
        return _dt.datetime.fromtimestamp(*a, **k)

    @classmethod
    def utcfromtimestamp(cls, *a, **k):
        return _dt.datetime.utcfromtimestamp(*a, **k)

    @classmethod
    def fromisoformat(cls, s):
        return _dt.datetime.fromisoformat(s)

    @classmethod
    def strptime(cls, *a):
        return _dt.datetime.strptime(*a)

    @classmethod
    def combine(cls, *a, **k):
        return _dt.datetime.combine(*a, **k)

    @classmethod
    def fromordinal(cls, n):
        return _dt.datetime.fromordinal(n)


class _VDateMeta(type(_dt.date)):
    def __instancecheck__(cls, obj):
        return isinstance(obj, _dt.date)


class VDate(_dt.date, metaclass=_VDateMeta):
    def __new__(cls, *a, **k):
        return _dt.date(*a, **k)

    @classmethod
    def today(cls):
        return _dt.datetime.fromtimestamp(_now()).date()

    @classmethod
    def fromisoformat(cls, s):
        return _dt.date.fromisoformat(s)

    @classmethod
    def fromtimestamp(cls, t):
        return _dt.date.fromtimestamp(t)


vdatetime = types.ModuleType("datetime")
for _k in dir(_dt):
    if not _k.startswith("__"):
        setattr(vdatetime, _k, getattr(_dt, _k))
vdatetime.datetime = VDateTime
vdatetime.date = VDate


RANDOM_OVERRIDE = None  # set by pure (no-execution) checks that enumerate jitter values


def _rand():
    if RANDOM_OVERRIDE is not None:
        return RANDOM_OVERRIDE
    ex = core.CUR
    return ex.random_value if ex is not None else 0.5


class _VRandom(types.ModuleType):
    def __getattr__(self, name):
        return getattr(_rrandom, name)

    @staticmethod
    def random():
        return _rand()

    @staticmethod
    def uniform(a, b):
        return a + (b - a) * _rand()


vrandom = _VRandom("random")


# ----------------------------------------------------------------------------- module shims
vthreading = types.ModuleType("threading")
for _k in dir(_rt):
    if not _k.startswith("__"):
        setattr(vthreading, _k, getattr(_rt, _k))
vthreading.Lock = Lock
vthreading.RLock = RLock
vthreading.Event = Event
vthreading.Condition = Condition
vthreading.Semaphore = Semaphore
vthreading.BoundedSemaphore = BoundedSemaphore
vthreading.Thread = Thread
vthreading.Timer = Timer
vthreading.current_thread = current_thread
vthreading.get_ident = get_ident
vthreading.active_count = active_count
vthreading.enumerate = enumerate_threads

vqueue = types.ModuleType("queue")
vqueue.Queue = Queue
vqueue.LifoQueue = LifoQueue
vqueue.PriorityQueue = PriorityQueue
vqueue.SimpleQueue = SimpleQueue
vqueue.Empty = _rq.Empty
vqueue.Full = _rq.Full

vfutures = types.ModuleType("concurrent.futures")
for _k in list(_cf.__all__) + [k for k in vars(_cf) if not k.startswith("__")]:
    if _k in ("ProcessPoolExecutor",):
        continue
    try:
        setattr(vfutures, _k, getattr(_cf, _k))
    except Exception:  # noqa: BLE001
        pass
vfutures.ThreadPoolExecutor = ThreadPoolExecutor
vfutures.Future = Future
vfutures.wait = cf_wait
vfutures.as_completed = cf_as_completed
