"""Check runner: `./check <ID> --tier quick|thorough [--replay FILE]`.

Exit codes: 0 = property held on everything explored (KNOWN-FINDING lines allowed);
1 = at least one violation not listed in known_findings.json (a VIOLATION line is printed);
2 = internal error (nondeterminism, uncontrolled primitive, setup failure) - never a verdict.
"""
from __future__ import annotations

import argparse
import hashlib
import importlib
import json
import multiprocessing as mp
import os
import sys
import time
import traceback

ROOT = os.path.dirname(os.path.dirname(os.path.abspath(__file__)))
EVIDENCE_DIR = os.path.join(ROOT, "evidence")
REPLAY_DIR = os.path.join(ROOT, "replays")
FINDINGS = os.path.join(ROOT, "known_findings.json")

_POOL = None
_NPROCS = int(os.environ.get("VERIF_PROCS", "16"))


def _pin(counter):
    """Pin each pool worker to one CPU: baton hand-overs between carrier threads are
    ~3x cheaper when all carriers of a worker share a core."""
    try:
        with counter.get_lock():
            k = counter.value
            counter.value += 1
        cpus = sorted(os.sched_getaffinity(0))
        os.sched_setaffinity(0, {cpus[k % len(cpus)]})
    except Exception:  # noqa: BLE001
        pass


def _call(job):
    mod, fn, arg = job
    try:
        m = importlib.import_module(mod)
        return ("ok", getattr(m, fn)(arg))
    except BaseException as e:  # noqa: BLE001
        return ("err", f"{type(e).__name__}: {e}\n{traceback.format_exc()}")


class Ctx:
    def __init__(self, tier, seed, procs):
        self.tier = tier
        self.seed = seed
        self.procs = procs
        self.t0 = time.time()

    def pmap(self, mod, fn, args, chunksize=1):
        """Map a module-level function over args in the fork pool (unordered results
        are re-ordered to input order)."""
        jobs = [(mod, fn, a) for a in args]
        if self.procs <= 1 or _POOL is None or len(jobs) <= 1:
            res = [_call(j) for j in jobs]
        else:
            res = _POOL.map(_call, jobs, chunksize=chunksize)
        out = []
        for kind, val in res:
            if kind == "err":
                raise InternalCheckError(val)
            out.append(val)
        return out

    def elapsed(self):
        return time.time() - self.t0


class InternalCheckError(Exception):
    pass


def load_findings():
    if not os.path.exists(FINDINGS):
        return []
    with open(FINDINGS) as f:
        return json.load(f).get("findings", [])


def write_replay(pid, v):
    os.makedirs(REPLAY_DIR, exist_ok=True)
    body = json.dumps(v, sort_keys=True, default=repr, indent=1)
    h = hashlib.blake2b(json.dumps(v.get("replay", v), sort_keys=True, default=repr).encode(),
                        digest_size=6).hexdigest()
    path = os.path.join(REPLAY_DIR, f"{pid}-{h}.json")
    with open(path, "w") as f:
        f.write(body)
    test = os.path.join(REPLAY_DIR, f"{pid}-{h}_test.py".replace("-", "_"))
    with open(test, "w") as f:
        f.write(
            "# Generated: replays one recorded counterexample without the explorer.\n"
            "import subprocess, sys, os\n\n"
            f"def test_replay_{pid}_{h}():\n"
            f"    root = {ROOT!r}\n"
            f"    r = subprocess.run([os.path.join(root, 'check'), {pid!r}, '--replay', {path!r}],\n"
            "                       capture_output=True, text=True, cwd=root)\n"
            "    sys.stdout.write(r.stdout)\n"
            "    assert r.returncode == 0, 'replay reproduced the violation:\\n' + r.stdout\n")
    return path


def main(argv=None):
    for stream in (sys.stdout, sys.stderr):
        try:
            stream.reconfigure(errors="backslashreplace")   # messages may quote strings that are not valid UTF-8
        except Exception:  # noqa: BLE001
            pass
    global _POOL
    ap = argparse.ArgumentParser()
    ap.add_argument("pid")
    ap.add_argument("--tier", default=os.environ.get("VERIF_TIER", "quick"),
                    choices=["quick", "thorough"])
    ap.add_argument("--replay", default=None)
    ap.add_argument("--procs", type=int, default=_NPROCS)
    ap.add_argument("--no-evidence", action="store_true")
    a = ap.parse_args(argv)
    pid = a.pid.upper()
    seed = int(os.environ.get("VERIF_SEED", "0") or 0)
    t0 = time.time()
    try:
        mod = importlib.import_module(f"vcheck.props.{pid.lower()}")
    except ModuleNotFoundError as e:
        print(f"INTERNAL: no check module for {pid}: {e}")
        return 2
    try:
        import logging
        logging.disable(logging.CRITICAL)  # the SDK's own logging is not under test (C17 uses a captured logger)
        from vcheck.vsched import patch
        patch.patch()
    except Exception as e:  # noqa: BLE001
        print(f"INTERNAL: cannot import/patch the SDK from /repo: {type(e).__name__}: {e}")
        traceback.print_exc()
        return 2

    if a.replay:
        with open(a.replay) as f:
            rep = json.load(f)
        try:
            res = mod.replay(rep)
        except Exception as e:  # noqa: BLE001
            print(f"INTERNAL: replay failed: {type(e).__name__}: {e}")
            traceback.print_exc()
            return 2
        print(json.dumps(res, indent=1, default=repr, sort_keys=True))
        if res.get("violations"):
            print(f"VIOLATION property={pid} replay={a.replay}")
            return 1
        print("replay: no violation")
        return 0

    if a.procs > 1:
        mpctx = mp.get_context("fork")
        _POOL = mpctx.Pool(a.procs, initializer=_pin, initargs=(mpctx.Value("i", 0),))
    ctx = Ctx(a.tier, seed, a.procs)
    try:
        result = mod.run(ctx)
    except InternalCheckError as e:
        print(f"INTERNAL: {e}")
        return 2
    except Exception as e:  # noqa: BLE001
        print(f"INTERNAL: {type(e).__name__}: {e}")
        traceback.print_exc()
        return 2
    finally:
        if _POOL is not None:
            _POOL.terminate()
            _POOL = None

    internal = result.get("internal") or []
    findings = [f for f in load_findings() if f.get("property") == pid]
    known_sigs = {f["signature"]: f for f in findings if f.get("status") == "known"}
    viols = result.get("violations", [])
    unknown = []
    known_seen = {}
    for v in viols:
        sig = v.get("sig")
        if sig in known_sigs:
            known_seen.setdefault(sig, 0)
            known_seen[sig] += 1
        else:
            unknown.append(v)
    for sig, n in sorted(known_seen.items()):
        print(f"KNOWN-FINDING: property={pid} {sig} ({n} occurrence(s); {known_sigs[sig].get('what','')})")
    seen_sig = set()
    rc = 0
    for v in unknown:
        sig = v.get("sig")
        if sig in seen_sig:
            continue
        seen_sig.add(sig)
        path = write_replay(pid, v)
        print(f"VIOLATION property={pid} replay={path}")
        print(f"  signature: {sig}")
        print(f"  {v.get('msg','')}")
        rc = 1
    wall = time.time() - t0
    cov = dict(result.get("coverage", {}))
    cov.setdefault("exhaustive", not cov.get("capped", False))
    ev = {
        "property_id": pid,
        "tier": a.tier,
        "seed": seed,
        "level": "model_checking",
        "coverage": cov,
        "assumptions": result.get("assumptions", []),
        "wall_s": round(wall, 3),
        "violations": len(seen_sig),
        "known_findings_seen": sorted(known_seen),
        "internal_errors": internal[:10],
    }
    if not a.no_evidence:
        os.makedirs(EVIDENCE_DIR, exist_ok=True)
        with open(os.path.join(EVIDENCE_DIR, f"{pid}.json"), "w") as f:
            json.dump(ev, f, indent=1, default=repr, sort_keys=True)
    summ = {k: cov.get(k) for k in ("states", "transitions", "traces_validated_against_impl",
                                     "distinct_outcomes", "exhaustive") if k in cov}
    print(f"{pid} tier={a.tier} seed={seed} wall={wall:.1f}s {summ} violations={len(seen_sig)} "
          f"known={len(known_seen)}")
    if internal:
        print(f"INTERNAL: {len(internal)} internal error(s), first: {internal[0]}")
        return 2
    return rc


if __name__ == "__main__":
    sys.exit(main())
