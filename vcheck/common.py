"""Shared plumbing for checks: run exploration units in the fork pool and aggregate coverage."""
from __future__ import annotations

import importlib
import random

from vcheck.vsched import explore


_KNOWN = None


def _known_signatures():
    global _KNOWN
    if _KNOWN is None:
        import json
        import os
        p = os.path.join(os.path.dirname(os.path.dirname(os.path.abspath(__file__))), "known_findings.json")
        try:
            _KNOWN = {f["signature"] for f in json.load(open(p)).get("findings", []) if f.get("status") == "known"}
        except Exception:  # noqa: BLE001
            _KNOWN = set()
    return _KNOWN


def _unit(arg):
    modname, cfg, budget, cap = arg
    mod = importlib.import_module(modname)
    acc = {}
    merge = getattr(mod, "merge", None)

    def run(p):
        r = mod.exec_one(cfg, p)
        if merge is not None and not r.internal:
            r.violations.extend(merge(acc, r, cfg) or [])
        return r
    known = _known_signatures()
    st, viols = explore.explore(run, budget, max_execs=cap, stop_after_bad=40, is_known=lambda sig: sig in known)
    seen = set()
    keep = []
    for _, v in viols:
        if v["sig"] not in seen:
            seen.add(v["sig"])
            keep.append(v)
    return {"cfg": cfg, "budget": budget,
            "stats": {"executions": st.executions, "nodes": st.nodes, "steps": st.steps,
                      "max_dev": st.max_dev, "by_level": st.by_level,
                      "outcomes": sorted(st.outcomes), "capped": st.capped,
                      "cap_note": st.cap_note, "internal": st.internal[:3],
                      "end_reasons": st.end_reasons},
            "viols": keep[:30], "nviol": len(viols), "acc": acc}


def _weight(unit):
    cfg, budget, _cap = unit
    size = len(repr(cfg.get("program", cfg))) if isinstance(cfg, dict) else 100
    dev = budget.get("total", sum(v for k, v in budget.items() if isinstance(v, int)))
    line = 4 if isinstance(cfg, dict) and (cfg.get("line") or (cfg.get("cfg") or {}).get("line_files")) else 1
    return size * (1 + dev) ** 2 * line


def explore_units(ctx, modname, units, sample_n=4, label=lambda cfg: cfg, accs=None):
    """units: list of (cfg, budget, cap). Returns (coverage dict, violations, internal)."""
    rnd = random.Random(ctx.seed)
    order = list(range(len(units)))
    rnd.shuffle(order)
    # heaviest units first (better load balance); the seed decides the order among equals
    order.sort(key=lambda i: -_weight(units[i]))
    res = ctx.pmap("vcheck.common", "_unit", [(modname,) + tuple(units[i]) for i in order])
    tot_exec = tot_nodes = tot_steps = 0
    outcomes = set()
    capped = False
    per = []
    viols = []
    internal = []
    ends = {}
    for r in res:
        s = r["stats"]
        tot_exec += s["executions"]
        tot_nodes += s["nodes"]
        tot_steps += s["steps"]
        outcomes |= set(s["outcomes"])
        capped = capped or s["capped"]
        internal.extend(s["internal"])
        for k, v in s["end_reasons"].items():
            ends[k] = ends.get(k, 0) + v
        per.append({"cfg": label(r["cfg"]), "budget": r["budget"], "executions": s["executions"],
                    "by_deviation_level": s["by_level"], "distinct_outcomes": len(s["outcomes"]),
                    "capped": s["capped"], "cap_note": s["cap_note"]})
        viols.extend(r["viols"])
        if accs is not None:
            accs.append(r.get("acc") or {})
    per.sort(key=lambda p: repr(p["cfg"]))
    vac = [p["cfg"] for p in per if p["distinct_outcomes"] <= 1 and p["executions"] > 50]
    cov = {
        "states": max(1, tot_nodes),
        "transitions": max(1, tot_steps),
        "traces_validated_against_impl": tot_exec,
        "samples": [per[i] for i in sorted(rnd.sample(range(len(per)), min(sample_n, len(per))))],
        "distinct_outcomes": len(outcomes),
        "harness_configs": len(units),
        "capped": capped,
        "caps": [p for p in per if p["capped"]],
        "single_outcome_configs": vac,
        "end_reasons": ends,
        "per_config": per,
    }
    return cov, viols, internal
