#!/bin/sh
# tools/try_seed.sh <seed-dir-name> <check> [<check>...]: apply the seeded patch to /repo, run the checks (no evidence), undo.
cd /repo || exit 2
[ -z "$(git status --porcelain)" ] || { echo "repo dirty"; exit 2; }
sd=$1; shift
git apply /verif/seeded/$sd/patch.diff || exit 2
for c in "$@"; do
  (cd /verif && ./check $c --tier quick --no-evidence 2>&1 | grep -A1 "signature\|tier=\|INTERNAL" | grep -v "^--\|KNOWN" | cut -c1-260 | tail -5)
done
git checkout -- .
