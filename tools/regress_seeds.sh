#!/bin/sh
# tools/regress_seeds.sh [seed-id...]: for every seeded change, apply it to a scratch worktree of /repo and run the checks
# listed in its meta.json (detected_by); prints MISS when a listed check no longer reports a violation.
cd "$(dirname "$0")/.." || exit 2
WT=${SEED_WT:-/tmp/seedwt}
[ -d "$WT" ] || git -C /repo worktree add --detach "$WT" HEAD >/dev/null 2>&1
seeds="$*"; [ -n "$seeds" ] || seeds=$(ls seeded)
for s in $seeds; do
  git -C "$WT" checkout -q -- . && git -C "$WT" checkout -q --detach "$(git -C /repo rev-parse HEAD)" 2>/dev/null
  if ! git -C "$WT" apply "$(pwd)/seeded/$s/patch.diff" 2>/dev/null; then echo "$s: patch does not apply"; continue; fi
  checks=$(python3 -c "import json;print(' '.join(json.load(open('seeded/$s/meta.json')).get('detected_by') or []))")
  for c in $checks; do
    out=$(VERIF_REPO=$WT ./check $c --tier quick --no-evidence 2>&1); r=$?
    n=$(echo "$out" | grep -c "^VIOLATION")
    if [ "$n" -gt 0 ]; then echo "$s $c: detected ($n signature(s), exit $r)"; else echo "$s $c: MISS (exit $r) $(echo "$out" | tail -1 | cut -c1-120)"; fi
  done
done
git -C "$WT" checkout -q -- .
