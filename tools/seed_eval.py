#!/venv/bin/python
"""Evaluate a seeded change produced by a sub-agent.

  tools/seed_eval.py <seed-id> <worktree> [--checks C01,C11] [--skip-suite]

1. verifies in the worktree: the repo's own suite passes with the patch, the demonstration fails
   with it and passes without it;
2. copies patch.diff / demo / meta into /verif/seeded/<seed-id>/;
3. applies the patch to /repo, runs the given checks (quick tier, evidence untouched), undoes it;
4. records everything in /verif/seeded/<seed-id>/meta.json.
"""
import argparse, json, os, shutil, subprocess, sys, time

ROOT = os.path.dirname(os.path.dirname(os.path.abspath(__file__)))


def sh(cmd, cwd=None, env=None, timeout=3600):
    e = dict(os.environ)
    e.update(env or {})
    p = subprocess.run(cmd, shell=True, cwd=cwd, env=e, capture_output=True, text=True, timeout=timeout)
    return p.returncode, (p.stdout + p.stderr)


def main():
    ap = argparse.ArgumentParser()
    ap.add_argument("sid")
    ap.add_argument("wt")
    ap.add_argument("--checks", default="")
    ap.add_argument("--skip-suite", action="store_true")
    ap.add_argument("--demo", default="demo_test.py")
    a = ap.parse_args()
    wt = a.wt
    env = {"PYTHONPATH": f"{wt}/src"}
    out = {"seed": a.sid, "ran": time.strftime("%Y-%m-%d %H:%M:%S")}
    agent_meta = {}
    if os.path.exists(f"{wt}/meta.json"):
        try:
            agent_meta = json.load(open(f"{wt}/meta.json"))
        except Exception as e:  # noqa: BLE001
            agent_meta = {"unreadable": str(e)}
    out["agent_meta"] = agent_meta
    # the agents' worktrees share one stash: trust patch.diff, not the worktree state
    want = open(f"{wt}/patch.diff").read()
    sh("git checkout -- src", cwd=wt)
    rc, o = sh("git apply patch.diff", cwd=wt)
    if rc != 0:
        print("patch.diff does not apply to a clean worktree:", o)
        return 2
    rc, diff = sh("git diff -- src", cwd=wt)
    if not diff.strip():
        print("no source change in worktree")
        return 2
    demo = f"{wt}/{a.demo}"
    is_pytest = "def test_" in open(demo).read()
    demo_cmd = f"/venv/bin/python -m pytest -q -p no:cacheprovider -x {a.demo}" if is_pytest else f"/venv/bin/python {a.demo}"
    # with patch
    if not a.skip_suite:
        rc, o = sh("/venv/bin/python -m pytest -q -p no:cacheprovider --timeout=900 -x tests", cwd=wt, env=env)
        out["suite_with_patch"] = {"rc": rc, "tail": o.strip().splitlines()[-1:]}
    rc, o = sh(demo_cmd, cwd=wt, env=env, timeout=600)
    out["demo_with_patch"] = {"rc": rc, "tail": o.strip().splitlines()[-3:]}
    # without patch
    sh("git apply -R patch.diff", cwd=wt)
    try:
        rc, o = sh(demo_cmd, cwd=wt, env=env, timeout=600)
        out["demo_without_patch"] = {"rc": rc, "tail": o.strip().splitlines()[-3:]}
    finally:
        sh("git apply patch.diff", cwd=wt)
    ok = out.get("suite_with_patch", {"rc": 0})["rc"] == 0 and out["demo_with_patch"]["rc"] != 0 and out["demo_without_patch"]["rc"] == 0
    out["confirmed"] = ok
    dest = os.path.join(ROOT, "seeded", a.sid)
    os.makedirs(dest, exist_ok=True)
    open(os.path.join(dest, "patch.diff"), "w").write(diff)
    shutil.copy(demo, os.path.join(dest, os.path.basename(demo)))
    # run checks against /repo with the patch applied
    results = {}
    if a.checks and ok:
        rc, o = sh("git status --porcelain", cwd="/repo")
        if o.strip():
            print("REPO DIRTY, refusing to apply", o)
            return 2
        rc, o = sh(f"git apply {dest}/patch.diff", cwd="/repo")
        if rc != 0:
            out["apply_error"] = o
        else:
            try:
                for c in a.checks.split(","):
                    t0 = time.time()
                    rc, o = sh(f"./check {c} --tier quick --no-evidence", cwd=ROOT, timeout=3600)
                    sigs = [l.strip() for l in o.splitlines() if l.strip().startswith("signature:")]
                    results[c] = {"rc": rc, "wall": round(time.time() - t0, 1), "signatures": sigs[:12],
                                  "last": o.strip().splitlines()[-1:][0][:200] if o.strip() else ""}
                    print(c, rc, sigs[:3])
            finally:
                sh("git checkout -- .", cwd="/repo")
                rc, o = sh("git status --porcelain", cwd="/repo")
                assert not o.strip(), o
    out["checks"] = results
    out["detected_by"] = sorted(c for c, r in results.items() if r["rc"] == 1)
    json.dump(out, open(os.path.join(dest, "meta.json"), "w"), indent=1)
    print(json.dumps({k: out[k] for k in ("confirmed", "detected_by")}, indent=0))
    print("suite:", out.get("suite_with_patch"), "demo+:", out["demo_with_patch"]["rc"], "demo-:", out["demo_without_patch"]["rc"])
    return 0


if __name__ == "__main__":
    sys.exit(main())
