"""Exploration probe: run selected units of a check with overridden budgets against $VERIF_REPO.

usage: VERIF_REPO=/path ./tools/probe.sh C07 --name 'par[w1s' --budget '{"thread":1,"timer":1,"total":2}' [--cfg '{"policy":"high"}']
Prints per unit: executions, violation signatures.  Not a registered check.
"""
from __future__ import annotations

import argparse
import importlib
import json
import logging
import multiprocessing as mp
import os
import sys
import time


def _run(arg):
    modname, cfg, budget, cap = arg
    from vcheck import common
    t = time.time()
    r = common._unit((modname, cfg, budget, cap))
    name = ((cfg.get("program") or {}).get("name") or str(cfg.get("producers"))) if isinstance(cfg, dict) else str(cfg)
    return name, budget, {k: v for k, v in (cfg.get("cfg") or {}).items()} if isinstance(cfg, dict) else {}, \
        r["stats"]["executions"], r["stats"]["capped"], sorted({v["sig"] for v in r["viols"]}), \
        [v["msg"][:300] for v in r["viols"][:2]], round(time.time() - t, 1)


def main():
    ap = argparse.ArgumentParser()
    ap.add_argument("pid")
    ap.add_argument("--tier", default="quick")
    ap.add_argument("--name", default="")
    ap.add_argument("--budget", default=None)
    ap.add_argument("--cfg", default=None)
    ap.add_argument("--cap", type=int, default=None)
    ap.add_argument("--procs", type=int, default=16)
    ap.add_argument("--dedupe", action="store_true", help="one unit per program name")
    a = ap.parse_args()
    logging.disable(logging.CRITICAL)
    from vcheck.vsched import patch
    patch.patch()
    modname = f"vcheck.props.{a.pid.lower()}"
    mod = importlib.import_module(modname)
    units = mod.space(a.tier) if hasattr(mod, "space") else mod.configs(a.tier)
    sel = []
    seen = set()
    for cfg, budget, cap in units:
        name = (cfg.get("program") or {}).get("name", "") if isinstance(cfg, dict) else ""
        if a.name and a.name not in name:
            continue
        if a.dedupe and name in seen:
            continue
        seen.add(name)
        if a.cfg:
            cfg = dict(cfg)
            if "program" in cfg:
                cfg["cfg"] = dict(cfg.get("cfg") or {}, **json.loads(a.cfg))
            else:
                cfg.update(json.loads(a.cfg))   # component harness: flat configuration
        if a.budget:
            budget = json.loads(a.budget)
        sel.append((modname, cfg, budget, a.cap or cap))
    print(f"{len(sel)} units", flush=True)
    from vcheck.runner import _pin
    ctx = mp.get_context("fork")
    counter = ctx.Value("i", int(os.environ.get("PROBE_CPU0", "0")))
    with ctx.Pool(a.procs, initializer=_pin, initargs=(counter,)) as pool:
        for name, budget, c, n, capped, sigs, msgs, wall in pool.imap_unordered(_run, sel):
            print(f"{name} {budget} {c} execs={n} capped={capped} wall={wall}s sigs={sigs}", flush=True)
            for m in msgs:
                print("   ", m)


if __name__ == "__main__":
    main()
