#!/bin/sh
# tools/benign_eval.sh <repo-dir> [procs]: run every quick check (no evidence) against a scratch tree; any alarm there is
# either a real break in that tree or a false alarm of the machinery.
cd "$(dirname "$0")/.." || exit 2
dir=$1; procs=${2:-16}
for c in C01 C02 C03 C04 C05 C06 C07 C08 C09 C10 C11 C12 C13 C14 C15 C16 C17 C18 C19 C20; do
  out=$(VERIF_REPO=$dir ./check $c --tier quick --no-evidence --procs $procs 2>&1); r=$?
  echo "$out" | grep -E "^(VIOLATION|INTERNAL)|signature" | cut -c1-300 | head -12
  echo "[$r] $(echo "$out" | tail -1 | cut -c1-200)"
done
