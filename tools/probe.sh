#!/bin/sh
# tools/probe.sh <check> [probe.py options]: exploration probe against ${VERIF_REPO:-/repo} (not a registered check)
cd "$(dirname "$0")/.." || exit 2
REPO="${VERIF_REPO:-/repo}"
export PYTHONHASHSEED=0 AWS_DURABLE_EXECUTION_SDK_PYTHON_VERIF=1
PYTHONPATH="$(pwd):$REPO/src${PYTHONPATH:+:$PYTHONPATH}" exec /venv/bin/python tools/probe.py "$@"
