#!/bin/sh
# Runs every registered check's quick (or $1) tier; prints one line per check.
cd "$(dirname "$0")" || exit 2
tier=${1:-quick}
rc=0
for c in C01 C02 C03 C04 C05 C06 C07 C08 C09 C10 C11 C12 C13 C14 C15 C16 C17 C18 C19 C20; do
  out=$(./check $c --tier $tier 2>&1); r=$?
  echo "$out" | grep -E "^(VIOLATION|KNOWN-FINDING|INTERNAL)" | cut -c1-200
  echo "[$r] $(echo "$out" | tail -1 | cut -c1-230)"
  [ $r -ne 0 ] && rc=1
done
exit $rc
