#!/bin/sh
# Offline setup: nothing to build; verify the SDK imports from /repo and the virtual
# primitives conform to the stdlib ones.
cd "$(dirname "$0")" || exit 2
export PYTHONHASHSEED=0
export PYTHONPATH="/verif:/repo/src${PYTHONPATH:+:$PYTHONPATH}"
/venv/bin/python -m vcheck.vsched.selftest || exit 1
echo "setup ok"
